#!/usr/bin/env python3
"""Writes the measured quick-tier sizes (from evidence/*.json, i.e. from the last ./vcheck <id> quick of each property)
into DESIGN.md between the markers <!-- quick-sizes:begin --> / <!-- quick-sizes:end -->. Run: python3 tools_sizes.py"""
import json
import os

ROOT = os.path.dirname(os.path.abspath(__file__))
rows = ["| id | tier | seed | evaluations | distinct non-trivial cases | violations | known findings reported | wall (s) |", "|---|---|---|---|---|---|---|---|"]
for i in range(1, 20):
    pid = "C%02d" % i
    p = os.path.join(ROOT, "evidence", pid + ".json")
    if not os.path.exists(p):
        continue
    d = json.load(open(p))
    cov = d.get("coverage", {})
    known = len(cov.get("known_findings_seen", []) or [])
    rows.append("| %s | %s | %s | %s | %s | %s | %s | %s |" % (pid, d.get("tier"), d.get("seed"), cov.get("evaluations"), cov.get("distinct_nontrivial"), d.get("violations"), known, d.get("wall_s")))
dp = os.path.join(ROOT, "DESIGN.md")
s = open(dp).read()
b, e = "<!-- quick-sizes:begin -->", "<!-- quick-sizes:end -->"
if b in s and e in s:
    s = s[:s.index(b) + len(b)] + "\n" + "\n".join(rows) + "\n" + s[s.index(e):]
    open(dp, "w").write(s)
    print("DESIGN.md: quick sizes of %d properties written" % (len(rows) - 2))
else:
    print("\n".join(rows))
