#!/usr/bin/env python3
# validates MANIFEST.json and evidence/*.json against the given schemas (uses the tooling venv's jsonschema)
import json, sys, glob, os
import jsonschema
root = os.path.dirname(os.path.abspath(__file__))
ok = True
try:
    jsonschema.validate(json.load(open(root + '/MANIFEST.json')), json.load(open('/root/.vp/MANIFEST.schema.json')))
    print('MANIFEST.json valid')
except Exception as e:
    ok = False; print('MANIFEST.json INVALID', str(e)[:500])
s = json.load(open('/root/.vp/EVIDENCE.schema.json'))
for f in sorted(glob.glob(root + '/evidence/*.json')):
    try:
        jsonschema.validate(json.load(open(f)), s); print(os.path.basename(f), 'valid')
    except Exception as e:
        ok = False; print(os.path.basename(f), 'INVALID', str(e)[:500])
sys.exit(0 if ok else 1)
