package props

import (
	"encoding/json"
	"encoding/xml"
	"fmt"
	"net/http"
	"runtime"
	"sort"
	"strconv"
	"strings"
	"sync"
	"sync/atomic"

	restful "github.com/emicklei/go-restful/v3"

	"verifharness/core"
	"verifharness/rt"
)

func init() { register("C05", c05) }

// customAccessor is a registered EntityReaderWriter for a custom media type.
type customAccessor struct{ mime string }

func (c customAccessor) Read(req *restful.Request, v interface{}) error { return nil }
func (c customAccessor) Write(resp *restful.Response, status int, v interface{}) error {
	resp.Header().Set("Content-Type", c.mime)
	resp.WriteHeader(status)
	_, err := resp.Write([]byte("custom:" + c.mime))
	return err
}

type negEntity struct {
	XMLName xml.Name `json:"-" xml:"ent"`
	A       string   `json:"a" xml:"a"`
	N       int      `json:"n" xml:"n"`
}

type accRange struct {
	media  string
	q      string // "" = absent
	before []string
	after  []string
}

// render writes the range; deco adds optional SP around , ; =.
func (a accRange) render(r *core.Rand, deco bool) string {
	sp := func() string {
		if deco && r.Chance(1, 2) {
			return strings.Repeat(" ", r.Range(1, 2))
		}
		return ""
	}
	var b strings.Builder
	b.WriteString(sp() + a.media + sp())
	for _, p := range a.before {
		b.WriteString(";" + sp() + p + sp())
	}
	if a.q != "" {
		b.WriteString(";" + sp() + "q" + sp() + "=" + sp() + a.q + sp())
	}
	for _, p := range a.after {
		b.WriteString(";" + sp() + p + sp())
	}
	return b.String()
}

func renderAccept(r *core.Rand, rs []accRange, deco bool) string {
	parts := make([]string, len(rs))
	for i, a := range rs {
		parts[i] = a.render(r, deco)
	}
	return strings.Join(parts, ",")
}

// rankAccept is the executable reference of C05: greater q first, header order on ties, */* = first Produces entry.
func rankAccept(rs []accRange, produces []string) (string, bool) {
	type item struct {
		media string
		q     float64
	}
	items := make([]item, len(rs))
	for i, a := range rs {
		q := 1.0
		if a.q != "" {
			q, _ = strconv.ParseFloat(a.q, 64)
		}
		items[i] = item{a.media, q}
	}
	sort.SliceStable(items, func(i, j int) bool { return items[i].q > items[j].q })
	for _, it := range items {
		for _, p := range produces {
			if p == it.media {
				return p, true
			}
		}
		if it.media == "*/*" {
			return produces[0], true
		}
	}
	return "", false
}

func genAccept(r *core.Rand, produces, registered []string) []accRange {
	n := r.Range(1, 5)
	if r.Chance(1, 8) {
		n = r.Range(13, 18) // long headers: sorting algorithms change behaviour with length
		if r.Chance(1, 4) {
			n = []int{33, 65, 100}[r.Intn(3)]
		}
	}
	qs := []string{"", "", "", "1", "0.9", "0.8", "0.5", "0.5", "0.1", "0.001", "1.0", "0.75", "0"}
	others := []string{"image/png", "text/html", "application/pdf", "application/jsonp", "application/xhtml+xml"}
	late := n >= 33 && r.Chance(1, 2) // long header whose producible types only come at the very end
	out := make([]accRange, n)
	for i := range out {
		var m string
		k := r.Intn(10)
		if late && i < n-3 {
			k = 9
		}
		switch {
		case k < 4:
			m = r.Pick(produces)
		case k < 6:
			m = r.Pick(registered)
		case k < 7:
			m = "*/*"
		case k < 8:
			// a spelling in other letter case: media types are compared as written, so this is a foreign range
			m = r.Pick(produces)
			if r.Chance(1, 2) {
				m = strings.ToUpper(m)
			} else {
				m = strings.ToUpper(m[:1]) + m[1:]
			}
		default:
			m = r.Pick(others)
		}
		a := accRange{media: m, q: r.Pick(qs)}
		if r.Chance(1, 5) {
			a.before = append(a.before, r.Pick([]string{"level=1", "charset=utf-8", "v=b3", "qs=0.1", "x=q"}))
		}
		if r.Chance(1, 6) {
			a.after = append(a.after, r.Pick([]string{"level=2", "ext=1"}))
		}
		if a.q != "" && r.Chance(1, 10) {
			// an extension parameter behind the weight that happens to be called q as well: the weight is the first one
			a.after = append(a.after, r.Pick([]string{"q=0.05", "q=1", "q=0.999"}))
		}
		out[i] = a
	}
	return out
}

// paramFree keeps the media types without a parameter; "*/*" stands in when none is left.
func paramFree(l []string) []string {
	var out []string
	for _, m := range l {
		if !strings.Contains(m, ";") {
			out = append(out, m)
		}
	}
	if len(out) == 0 {
		out = []string{"*/*"}
	}
	return out
}

var c05Methods = []string{"GET", "HEAD", "PUT", "DELETE", "GET", "PATCH", "POST"}

func orderedSubsets(pool []string, max int, r *core.Rand, limit int) [][]string {
	var all [][]string
	var rec func(cur []string)
	rec = func(cur []string) {
		if len(cur) > 0 {
			all = append(all, append([]string{}, cur...))
		}
		if len(cur) == max {
			return
		}
		for _, p := range pool {
			dup := false
			for _, c := range cur {
				if c == p {
					dup = true
				}
			}
			if !dup {
				rec(append(cur, p))
			}
		}
	}
	rec(nil)
	if len(all) > limit {
		perm := r.Perm(len(all))
		sel := make([][]string, limit)
		for i := 0; i < limit; i++ {
			sel[i] = all[perm[i]]
		}
		return sel
	}
	return all
}

const c05VendorJSON = "application/vnd.verif.neg+json"

func c05(ctx *core.Ctx) {
	quietLogs()
	ctx.Rule("routes with every ordered Produces list (size 1-3) over the registered media types x generated Accept headers (1-18 ranges, now and then 33, 65 or 100, q-values, parameters before/after q, */*, foreign types, absent, two header fields) x default response content type {unset, JSON, XML} x registered-writer set {built-in, +text/plain, +application/x-verif and a vendor JSON type on the library's own JSON accessor (pretty and compact), +8 types registered concurrently while clients already ask for one of them, +types registered with a parameter of their own (charset, version)}; handler calls WriteEntity / WriteHeaderAndEntity; every route is registered for GET, HEAD, PUT, DELETE, PATCH and POST (requests rotate over them); every third route also declares media types without a registered writer; every fourth request goes through a container with an adapted pass-through middleware; every seventh handler overwrites Accept in the request's header map (preparing an upstream call) before it writes its entity; long headers whose producible ranges only come at the very end. Oracle: reference ranker; SP-decorated spelling and 3 repetitions must give the same choice. Non-trivial = an admitted request that wrote an entity; distinct by (writer set, default, produces list, winning rule: exact/star/absent, number of ranges bucket, decorated).")
	ctx.Assume("Accept grammar: full media types and */*, well-formed q-values (malformed q and type/* ranges are outside the property)",
		"with two Accept header fields only the reference-free clauses (Content-Type in Produces, never 406) are judged")
	defer restful.DefaultResponseContentType("")
	defer func() { restful.PrettyPrintResponses = true }()
	registered := []string{restful.MIME_JSON, restful.MIME_XML}
	phases := []string{"builtin", "+text/plain", "+application/x-verif", "+concurrent", "+parameterised"}
	headersPer := ctx.N(300, 6000)
	caseIdx := 0
	for pi, phase := range phases {
		switch pi {
		case 1:
			restful.RegisterEntityAccessor("text/plain", customAccessor{"text/plain"})
			registered = append(registered, "text/plain")
		case 2:
			restful.RegisterEntityAccessor("application/x-verif", customAccessor{"application/x-verif"})
			// and a vendor media type served by the library's own JSON accessor (pretty printing is switched per request)
			restful.RegisterEntityAccessor(c05VendorJSON, restful.NewEntityAccessorJSON(c05VendorJSON))
			registered = append(registered, "application/x-verif", c05VendorJSON)
		case 3:
			// registration from several goroutines at once is a legitimate use of the registry's lock
			var wg sync.WaitGroup
			start := make(chan struct{})
			for k := 0; k < 8; k++ {
				m := fmt.Sprintf("application/x-c%d", k)
				wg.Add(1)
				go func() {
					defer wg.Done()
					<-start
					restful.RegisterEntityAccessor(m, customAccessor{m})
				}()
			}
			close(start)
			wg.Wait()
			registered = []string{restful.MIME_JSON, "application/x-c0", "application/x-c3", "application/x-c7", "application/x-c5"}
			// more rounds of concurrent registration; every type registered must be usable afterwards
			rounds := ctx.N(60, 600)
			for round := 0; round < rounds; round++ {
				// the container exists before the types are registered (as the package-level container always does)
				c := restful.NewContainer()
				var wg sync.WaitGroup
				var ready, goFlag int32
				types := make([]string, 8)
				// a route that already produces the first of the new types next to JSON, and clients that prefer the new type
				// while it is being registered: until the registration has returned either representation is right, afterwards
				// only the preferred one
				lateType := fmt.Sprintf("application/x-r%d-0", round)
				lws := new(restful.WebService).Path("/late")
				lws.Route(lws.GET("/doc").Produces(lateType, restful.MIME_JSON).To(func(req *restful.Request, resp *restful.Response) {
					resp.WriteEntity(negEntity{A: "x", N: 7})
				}))
				c.Add(lws)
				lateReq := rt.Req{Method: "GET", Path: "/late/doc", HasAcc: true, Accept: lateType + ", application/json;q=0.5"}
				var stopClients int32
				var cwg sync.WaitGroup
				for g := 0; g < 4; g++ {
					cwg.Add(1)
					go func() {
						defer cwg.Done()
						for atomic.LoadInt32(&stopClients) == 0 {
							req := lateReq
							rt.Run(c, rt.Dispatch, &req)
						}
					}()
				}
				for k := range types {
					types[k] = fmt.Sprintf("application/x-r%d-%d", round, k)
					wg.Add(1)
					go func(m string) {
						defer wg.Done()
						atomic.AddInt32(&ready, 1)
						for atomic.LoadInt32(&goFlag) == 0 {
							runtime.Gosched()
						}
						restful.RegisterEntityAccessor(m, customAccessor{m})
					}(types[k])
				}
				for atomic.LoadInt32(&ready) < 8 {
					runtime.Gosched()
				}
				atomic.StoreInt32(&goFlag, 1)
				wg.Wait()
				atomic.StoreInt32(&stopClients, 1)
				cwg.Wait()
				{
					req := lateReq
					out := rt.Run(c, rt.Dispatch, &req)
					ctx.Eval(1)
					ctx.Count("types_registered_while_clients_asked_for_them", 1)
					if ct := out.Rec.Hdr().Get("Content-Type"); out.Status != 200 || ct != lateType {
						ctx.Violation(-1, "c05:rank:registered-while-asked-for", fmt.Sprintf("RegisterEntityAccessor(%q) has returned; Accept %q on a route producing [%s, application/json] is answered status %d Content-Type %q (clients had asked for it during the registration)", lateType, lateReq.Accept, lateType, out.Status, ct),
							map[string]interface{}{"round": round, "type": lateType, "status": out.Status, "content_type": ct})
					}
				}
				ws := new(restful.WebService).Path("/reg")
				for k, m := range types {
					ws.Route(ws.GET(fmt.Sprintf("/t%d", k)).Produces(m).To(func(req *restful.Request, resp *restful.Response) {
						resp.WriteEntity(negEntity{A: "x", N: 7})
					}))
				}
				c.Add(ws)
				for k, m := range types {
					req := rt.Req{Method: "GET", Path: fmt.Sprintf("/reg/t%d", k), HasAcc: true, Accept: m}
					out := rt.Run(c, rt.Dispatch, &req)
					ctx.Eval(1)
					ctx.Count("concurrently_registered_types_checked", 1)
					if ct := out.Rec.Hdr().Get("Content-Type"); out.Status != 200 || ct != m {
						ctx.Violation(-1, "c05:registration-lost", fmt.Sprintf("accessor for %q was registered (8 concurrent RegisterEntityAccessor calls) but a route producing it answered status %d Content-Type %q", m, out.Status, ct),
							map[string]interface{}{"round": round, "type": m, "status": out.Status, "content_type": ct})
					}
				}
			}
		}
		if pi == 4 {
			// writers registered under media types that carry a parameter of their own (a charset, a version): a route
			// that Produces exactly that string is served by exactly that writer. Accept headers of this phase name
			// parameter-free types and */* only (how a range with parameters selects among such entries is not specified)
			for _, m := range []string{"application/json; charset=utf-8", "application/x-verif; version=2"} {
				restful.RegisterEntityAccessor(m, customAccessor{m})
			}
			registered = []string{restful.MIME_JSON, "application/json; charset=utf-8", "application/x-verif; version=2", "text/plain"}
		}
		for _, def := range []string{"", restful.MIME_JSON, restful.MIME_XML} {
			restful.DefaultResponseContentType(def)
			r := ctx.Rand(caseIdx, "lists")
			lists := orderedSubsets(registered, 3, r, ctx.N(24, 60))
			// one container, one route per Produces list
			c := restful.NewContainer()
			ws := new(restful.WebService).Path("/n")
			fulls := make([][]string, len(lists))
			for li, l := range lists {
				l := l
				li := li
				// every third route also declares representations nobody has registered a writer for (yet): they are skipped
				full := append([]string{}, l...)
				if li%3 == 1 {
					at := r.Intn(len(full) + 1)
					full = append(full[:at:at], append([]string{r.Pick([]string{"application/vnd.verif+json", "application/vnd.verif+xml", "text/csv"})}, full[at:]...)...)
					if r.Chance(1, 2) {
						full = append(full, "application/vnd.other+json")
					}
				}
				fulls[li] = full
				handler := func(req *restful.Request, resp *restful.Response) {
					if o := rt.ObsOf(req.Request); o != nil {
						o.Invokes = append(o.Invokes, rt.Invoke{RID: li})
					}
					if req.Request.Header.Get("X-Preset") == "1" {
						// somebody (a filter, the handler) put a default Content-Type on the response before the entity is written
						resp.Header().Set("Content-Type", "text/html; charset=utf-8")
					}
					if req.Request.Header.Get("X-Upstream") == "1" {
						// the handler prepares a call to another service on the header map of this request (proxies do): what it
						// asks of the upstream is not what the client asked of us - the entity is negotiated with the client's Accept
						up := req.Request.Header
						up.Set("Accept", "application/octet-stream")
						up.Del("Accept-Language")
					}
					if req.Request.Header.Get("X-Created") == "1" {
						resp.WriteHeaderAndEntity(201, negEntity{A: "x", N: 7})
					} else {
						resp.WriteEntity(negEntity{A: "x", N: 7})
					}
				}
				// the same resource under every method: what is negotiated does not depend on the method
				for _, m := range []string{"GET", "HEAD", "PUT", "DELETE", "PATCH", "POST"} {
					ws.Route(ws.Method(m).Path(fmt.Sprintf("/p%d", li)).Produces(full...).To(handler))
				}
			}
			c.Add(ws)
			// the same service behind an adapted net/http middleware (pass-through): negotiation is untouched by it
			cA := restful.NewContainer()
			cA.Filter(restful.HttpMiddlewareHandlerToFilter(func(next http.Handler) http.Handler {
				return http.HandlerFunc(func(w http.ResponseWriter, r *http.Request) { next.ServeHTTP(w, r) })
			}))
			cA.Add(ws)
			for li, l := range lists {
				caseIdx++
				if ctx.Skip(caseIdx) {
					continue
				}
				ctx.Case(caseIdx, fmt.Sprintf("phase=%s default=%q produces=%v", phase, def, l))
				rr := ctx.Rand(caseIdx, "accept")
				for h := 0; h < headersPer; h++ {
					var ranges []accRange
					mode := "ranges"
					switch k := rr.Intn(20); {
					case k == 0:
						mode = "absent"
					case k == 1:
						mode = "twofields"
					}
					if mode != "absent" {
						if pi == 4 {
							ranges = genAccept(rr, paramFree(l), paramFree(registered))
						} else {
							ranges = genAccept(rr, l, registered)
						}
					}
					send := func(accept []string, created bool) *rt.Outcome {
						restful.PrettyPrintResponses = h%3 != 1 // every third header is answered in the compact form
						req := rt.Req{Method: c05Methods[(h/3)%len(c05Methods)], Path: fmt.Sprintf("/n/p%d", li), Hdr: map[string]string{}}
						if created {
							req.Hdr["X-Created"] = "1"
						}
						if h%5 == 2 {
							req.Hdr["X-Preset"] = "1"
						}
						if h%7 == 3 {
							req.Hdr["X-Upstream"] = "1"
						}
						obs := &rt.Obs{}
						rec := rt.NewRec()
						hr := rt.HTTPRequest(&req, obs)
						if accept != nil {
							hr.Header["Accept"] = accept
						}
						out := &rt.Outcome{Obs: obs, Rec: rec}
						func() {
							defer func() {
								if p := recover(); p != nil {
									out.Panicked, out.Panic = true, fmt.Sprint(p)
								}
							}()
							if h%4 == 3 {
								cA.Dispatch(rec, hr)
							} else {
								c.Dispatch(rec, hr)
							}
						}()
						out.Status = rec.Code()
						return out
					}
					created := rr.Chance(1, 4)
					var accept []string
					canon := ""
					if mode == "ranges" {
						canon = renderAccept(rr, ranges, false)
						accept = []string{canon}
					} else if mode == "twofields" {
						k := rr.Range(1, len(ranges))
						accept = []string{renderAccept(rr, ranges[:k], false)}
						if k < len(ranges) {
							accept = append(accept, renderAccept(rr, ranges[k:], false))
						} else {
							accept = append(accept, "image/png")
						}
					}
					out := send(accept, created)
					ctx.Eval(1)
					doc := map[string]interface{}{"phase": phase, "default": def, "produces": l, "accept": accept, "status": out.Status, "content_type": out.Rec.Hdr().Get("Content-Type"), "panic": out.Panic}
					if out.Panicked {
						ctx.Violation(caseIdx, "c05:panic", "panic while negotiating: "+out.Panic, doc)
						continue
					}
					if len(out.Obs.Invokes) == 0 {
						ctx.Count("not_admitted_by_router", 1)
						continue
					}
					ct := out.Rec.Hdr().Get("Content-Type")
					if n := len(out.Rec.Hdr()["Content-Type"]); n > 1 {
						ctx.Violation(caseIdx, "c05:content-type-count", fmt.Sprintf("%d Content-Type header fields: %v", n, out.Rec.Hdr()["Content-Type"]), doc)
						continue
					}
					if out.Status == 406 {
						ctx.Violation(caseIdx, "c05:406-after-admission:"+mode, fmt.Sprintf("router admitted Accept %q on Produces %v but the entity writer answered 406", accept, l), doc)
						continue
					}
					inProduces := false
					for _, p := range l { // l: the declared types that have a registered writer
						if p == ct {
							inProduces = true
						}
					}
					if !inProduces {
						ctx.Violation(caseIdx, "c05:not-produced:"+mode+":default="+def, fmt.Sprintf("Content-Type %q is not in Produces %v (Accept %q, default %q)", ct, l, accept, def), doc)
						continue
					}
					wantStatus := 200
					if created {
						wantStatus = 201
					}
					if out.Status != wantStatus {
						ctx.Violation(caseIdx, "c05:status", fmt.Sprintf("status %d, handler asked for %d", out.Status, wantStatus), doc)
					}
					// body decodes with the codec of that type
					body := out.Rec.Body.Bytes()
					switch {
					case ct == restful.MIME_JSON || ct == c05VendorJSON:
						var e negEntity
						if err := json.Unmarshal(body, &e); err != nil || e.N != 7 {
							ctx.Violation(caseIdx, "c05:body-json", fmt.Sprintf("body labelled JSON does not decode: %v %q", err, body), doc)
						}
					case ct == restful.MIME_XML:
						var e negEntity
						if err := xml.Unmarshal(body, &e); err != nil || e.N != 7 {
							ctx.Violation(caseIdx, "c05:body-xml", fmt.Sprintf("body labelled XML does not decode: %v %q", err, body), doc)
						}
					default:
						if string(body) != "custom:"+ct {
							ctx.Violation(caseIdx, "c05:body-custom", fmt.Sprintf("body %q was not written by the accessor registered for %q", body, ct), doc)
						}
					}
					if mode == "twofields" {
						ctx.Count("two_field_requests_judged_weakly", 1)
						continue
					}
					// reference ranker
					want, ok := l[0], true
					rule := "absent"
					if mode == "ranges" {
						want, ok = rankAccept(ranges, l)
						rule = "exact"
						if ok && want == l[0] {
							// could be exact or star; find out for the signature only
							rule = "exact-or-star"
						}
					}
					if !ok {
						ctx.Violation(caseIdx, "c05:admitted-unsatisfiable", fmt.Sprintf("router admitted Accept %q although no range is satisfiable from %v", accept, l), doc)
						continue
					}
					bucket := "1-5"
					if len(ranges) > 12 {
						bucket = "13+"
					}
					ctx.Sig(fmt.Sprintf("%s|def=%s|%v|%s|%s", phase, def, l, rule, bucket))
					ctx.Count("entities_judged", 1)
					if ct != want {
						ctx.Violation(caseIdx, "c05:rank:"+rule+":default="+def+":n="+bucket, fmt.Sprintf("Accept %q on Produces %v (default %q): wrote %q, the header ranks %q highest", accept, l, def, ct, want), doc)
						continue
					}
					// metamorphic: SP-decorated spelling, repetition
					if mode == "ranges" {
						deco := renderAccept(rr, ranges, true)
						o2 := send([]string{deco}, created)
						ctx.Eval(1)
						if ct2 := o2.Rec.Hdr().Get("Content-Type"); ct2 != ct || o2.Status != out.Status {
							doc["decorated"] = deco
							ctx.Violation(caseIdx, "c05:whitespace", fmt.Sprintf("Accept %q -> %q but with optional whitespace %q -> %q (status %d)", canon, ct, deco, ct2, o2.Status), doc)
						}
						ctx.Count("decorated_variants", 1)
					}
					for k := 0; k < 3; k++ {
						o3 := send(accept, created)
						ctx.Eval(1)
						if ct3 := o3.Rec.Hdr().Get("Content-Type"); ct3 != ct {
							ctx.Violation(caseIdx, "c05:unstable", fmt.Sprintf("the same request got %q and then %q", ct, ct3), doc)
							break
						}
					}
					if ctx.WantSample() && len(ranges) > 2 {
						ctx.Sample(doc)
					}
				}
			}
		}
	}
}
