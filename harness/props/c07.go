package props

import (
	"bytes"
	"compress/gzip"
	"compress/zlib"
	"context"
	"fmt"
	"io"
	"net/http"
	"net/http/httptest"
	"strings"
	"sync"

	restful "github.com/emicklei/go-restful/v3"

	"verifharness/core"
	"verifharness/rt"
)

func init() { register("C07", c07) }

// wlog is the per-request log of bytes written by filters, handler, error handler and recover handler, in call order.
type wlog struct {
	mu sync.Mutex
	b  bytes.Buffer
}

type wlogKey struct{}

// wlogByID finds the log of a request that travelled through a real server (no shared context): header X-Wlog.
var wlogByID sync.Map

func wlogOf(r *http.Request) *wlog {
	if l, ok := r.Context().Value(wlogKey{}).(*wlog); ok {
		return l
	}
	if id := r.Header.Get("X-Wlog"); id != "" {
		if l, ok := wlogByID.Load(id); ok {
			return l.(*wlog)
		}
	}
	return nil
}

func (l *wlog) write(w io.Writer, p []byte) {
	if l != nil {
		l.mu.Lock()
		l.b.Write(p)
		l.mu.Unlock()
	}
	if len(p)%5 == 3 {
		// handlers also copy from a source (a file, an upstream body): io.Copy probes source and destination for WriterTo /
		// ReaderFrom; this source has neither and hands over its last bytes TOGETHER with io.EOF, as bodies of known length do
		io.Copy(w, &lastWithEOF{b: append([]byte(nil), p...)})
		return
	}
	if len(p)%2 == 1 {
		// handlers also write strings; io.WriteString uses a WriteString method when the writer offers one
		io.WriteString(w, string(p))
		return
	}
	// io.Writer's contract: the callee must not retain p. The handler writes from a scratch buffer and reuses it at once.
	scratch := append([]byte(nil), p...)
	w.Write(scratch)
	for i := range scratch {
		scratch[i] = '#'
	}
}

// lastWithEOF is an io.Reader (nothing else) that delivers its data in two reads, the second one returning (n > 0, io.EOF).
type lastWithEOF struct {
	b    []byte
	half bool
}

func (l *lastWithEOF) Read(p []byte) (int, error) {
	if len(l.b) == 0 {
		return 0, io.EOF
	}
	n := len(l.b)
	if !l.half && n > 1 {
		n /= 2
	}
	l.half = true
	if n > len(p) {
		n = len(p)
	}
	copy(p, l.b[:n])
	l.b = l.b[n:]
	if len(l.b) == 0 {
		return n, io.EOF
	}
	return n, nil
}

// plainProvider is a custom CompressorProvider without pooling.
type plainProvider struct{}

func (plainProvider) AcquireGzipWriter() *gzip.Writer {
	w, _ := gzip.NewWriterLevel(new(bytes.Buffer), gzip.BestSpeed)
	return w
}
func (plainProvider) ReleaseGzipWriter(w *gzip.Writer) {}
func (plainProvider) AcquireGzipReader() *gzip.Reader  { return new(gzip.Reader) }
func (plainProvider) ReleaseGzipReader(r *gzip.Reader) {}
func (plainProvider) AcquireZlibWriter() *zlib.Writer {
	w, _ := zlib.NewWriterLevel(new(bytes.Buffer), zlib.BestSpeed)
	return w
}
func (plainProvider) ReleaseZlibWriter(w *zlib.Writer) {}

// recyclingProvider is a custom provider that takes ownership on release: it re-targets the
// released writer at once (legitimate: after Release the object belongs to the provider).
type recyclingProvider struct{ plainProvider }

func (recyclingProvider) ReleaseGzipWriter(w *gzip.Writer) { w.Reset(io.Discard) }
func (recyclingProvider) ReleaseZlibWriter(w *zlib.Writer) { w.Reset(io.Discard) }

func providerFor(name string) restful.CompressorProvider {
	switch name {
	case "recycling":
		return recyclingProvider{}
	case "bounded0":
		return restful.NewBoundedCachedCompressors(0, 0)
	case "bounded1":
		return restful.NewBoundedCachedCompressors(1, 1)
	case "bounded4":
		return restful.NewBoundedCachedCompressors(4, 4)
	case "custom":
		return plainProvider{}
	}
	return restful.NewSyncPoolCompessors()
}

// decodeComplete decodes a complete stream: every byte consumed, checksum verified, nothing trailing.
func decodeComplete(coding string, body []byte) ([]byte, error) {
	br := bytes.NewReader(body)
	var out []byte
	var err error
	switch coding {
	case "gzip":
		var gr *gzip.Reader
		gr, err = gzip.NewReader(br)
		if err != nil {
			return nil, err
		}
		gr.Multistream(false)
		out, err = io.ReadAll(gr)
	case "deflate":
		var zr io.ReadCloser
		zr, err = zlib.NewReader(br)
		if err != nil {
			return nil, err
		}
		out, err = io.ReadAll(zr)
	default:
		return nil, fmt.Errorf("unknown coding %q", coding)
	}
	if err != nil {
		return out, err
	}
	if br.Len() != 0 {
		return out, fmt.Errorf("%d trailing bytes after the end of the %s stream", br.Len(), coding)
	}
	return out, nil
}

type c07Case struct {
	Entry      string `json:"entry"`    // ServeHTTP | Dispatch | Handle | HandleWithFilter
	Cont       bool   `json:"cont"`     // container switch
	Route      string `json:"route"`    // unset | off | on
	AE         string `json:"ae"`       // Accept-Encoding ("-" = absent)
	Preset     bool   `json:"preset"`   // Content-Encoding already on the writer
	Provider   string `json:"provider"` // syncpool | bounded0 | bounded1 | bounded4 | custom
	Outcome    string `json:"outcome"`  // ok | 404 | 405 | 406 | 415 | panic-before | panic-after
	Prewrapped bool   `json:"prewrapped"`
	Payload    int    `json:"payload"`
	Chunks     []int  `json:"chunks"`
	FilterPre  bool   `json:"filter_pre"`
	FilterPost bool   `json:"filter_post"`
	CustomErr  bool   `json:"custom_error_handler"`
	CustomRec  bool   `json:"custom_recover_handler"`
	Status     int    `json:"status"`                        // explicit status written by the handler first (0: none)
	TryHijack  bool   `json:"handler_tries_to_hijack_first"` // the connection cannot be hijacked (the writer says so): the handler answers normally
	Forward    bool   `json:"forward"`                       // the addressed route hands its Response to a nested Dispatch for the real route
	Real       bool   `json:"real_server"`                   // the container sits behind a real net/http server; an http.Client reads the response
	Reused     bool   `json:"builder_reused"`                // each RouteBuilder goes on to build a sibling route with the opposite encoding setting
}

var (
	c07Entries   = []string{"ServeHTTP", "Dispatch", "Handle", "HandleWithFilter"}
	c07Routes    = []string{"unset", "off", "on"}
	c07AEs       = []string{"-", "gzip", "deflate", "gzip, deflate", "deflate, gzip", "identity", "br", "GZIP", "gzip;q=0.5, deflate;q=1.0", "br, deflate;q=0.1", "x-gzip", "*"}
	c07Providers = []string{"syncpool", "bounded0", "bounded1", "bounded4", "custom", "recycling"}
	c07Outcomes  = []string{"ok", "404", "405", "406", "415", "panic-before", "panic-after"}
)

func payloadBytes(n int, seed uint64) []byte {
	r := core.NewRand(seed)
	b := make([]byte, n)
	// compressible but not trivial
	words := []string{"alpha ", "beta ", "gamma ", "delta ", "\x00\x01\x02", "ünï ", "0123456789"}
	i := 0
	for i < n {
		w := words[r.Intn(len(words))]
		i += copy(b[i:], w)
	}
	return b
}

func valid07(k *c07Case) bool {
	routed := k.Entry == "ServeHTTP" || k.Entry == "Dispatch"
	if !routed {
		if k.Route != "unset" || k.Outcome != "ok" || k.Prewrapped {
			return false
		}
	}
	return true
}

func c07(ctx *core.Ctx) {
	quietLogs()
	ctx.Rule("matrix: entry {ServeHTTP, Dispatch, Handle, HandleWithFilter} x container switch x route override {unset, off, on} x Accept-Encoding (12 values) x pre-set Content-Encoding x provider {sync.Pool, bounded 0/1/4, custom non-pooling, custom recycling-on-release} x outcome {ok, 404, 405, 406, 415, panic before output, panic after partial output} x writer already a CompressingResponseWriter x payload {0, 1, 100, 70000 (1 MB thorough), 512/1024/4096/8192/32768/65536/131072/196608/262144 +-1} in random chunks, one call, byte by byte or all-but-the-last-byte across a container filter (before/after) and the handler, explicit handler statuses {none, 200, 201, 206, 404, 500}, forwarding handlers (Response handed to a nested Dispatch before anything is written; every other one adds a footer afterwards, which counts as written iff the call reports success), handlers that first try to hijack the connection and answer normally when that fails, RouteBuilders reused afterwards for a sibling route with the opposite setting (a third of the cells); custom or default error/recover writers; every 5th ServeHTTP cell runs behind a real net/http server and is read by an http.Client (no transparent decompression). quick: seeded random sample of cells; thorough: the full product of the switch dimensions, forty payload/chunkings per cell. Oracle per response: applied coding => label in {gzip,deflate}, Accept-Encoding mentions it, encoding enabled for the request, complete-stream decode == logged bytes; else body == logged bytes and no Content-Encoding added. Non-trivial = a response with a non-empty body or an applied coding; distinct by the switch cell (entry, cont, route, AE, preset, outcome, prewrapped, applied).")
	ctx.Assume("the property does not demand that a coding is applied when enabled; evidence reports how many responses were encoded",
		"with the default recover handler the stack text is not predictable: prefix and stream completeness are judged")
	defer restful.SetCompressorProvider(restful.NewSyncPoolCompessors())

	var cases []c07Case
	if ctx.Quick() {
		n := ctx.N(6000, 6000)
		r := ctx.Rand(0, "cells")
		for len(cases) < n {
			k := c07Case{Entry: r.Pick(c07Entries), Cont: r.Chance(1, 2), Route: r.Pick(c07Routes), AE: r.Pick(c07AEs), Preset: r.Chance(1, 6),
				Provider: r.Pick(c07Providers), Outcome: r.Pick(c07Outcomes), Prewrapped: r.Chance(1, 8)}
			if r.Chance(1, 2) {
				k.Outcome = "ok"
			}
			if r.Chance(1, 2) {
				k.AE = r.Pick([]string{"gzip", "deflate", "gzip, deflate", "deflate, gzip"})
			}
			if (k.Entry == "Handle" || k.Entry == "HandleWithFilter") && r.Chance(3, 4) {
				k.Route, k.Outcome, k.Prewrapped = "unset", "ok", false
			}
			if valid07(&k) {
				cases = append(cases, k)
			}
		}
	} else {
		for _, e := range c07Entries {
			for _, cont := range []bool{false, true} {
				for _, rt_ := range c07Routes {
					for _, ae := range c07AEs {
						for _, pre := range []bool{false, true} {
							for _, prov := range c07Providers {
								for _, oc := range c07Outcomes {
									for _, pw := range []bool{false, true} {
										k := c07Case{Entry: e, Cont: cont, Route: rt_, AE: ae, Preset: pre, Provider: prov, Outcome: oc, Prewrapped: pw}
										if valid07(&k) {
											for rep := 0; rep < 40; rep++ {
												cases = append(cases, k)
											}
										}
									}
								}
							}
						}
					}
				}
			}
		}
		ctx.Put("exhaustive_switch_product", true)
	}
	sizes := []int{0, 1, 100, 70000}
	curProvider := ""
	for ci := range cases {
		if ctx.Skip(ci) {
			continue
		}
		k := &cases[ci]
		r := ctx.Rand(ci, "case")
		k.Payload = sizes[r.Intn(len(sizes))]
		if !ctx.Quick() && r.Chance(1, 200) {
			k.Payload = 1 << 20
		}
		if r.Chance(1, 4) {
			// sizes at and around the buffer sizes code likes to use
			k.Payload = []int{512, 1024, 4096, 8192, 32768, 65536, 131072, 196608, 262144}[r.Intn(9)] + r.Intn(3) - 1
		}
		k.Chunks = nil
		left := k.Payload
		style := r.Intn(8)
		for left > 0 {
			c := r.Range(1, left)
			if r.Chance(1, 2) && left > 10 {
				c = r.Range(1, 10)
			}
			if len(k.Chunks) > 6 {
				c = left
			}
			switch {
			case style == 0:
				c = left // one call with everything
			case style == 1 && k.Payload <= 9000:
				c = 1 // byte by byte
			case style == 2 && len(k.Chunks) == 0 && left > 1:
				c = left - 1 // everything but the last byte, then the last byte
			}
			k.Chunks = append(k.Chunks, c)
			left -= c
		}
		k.FilterPre, k.FilterPost = r.Chance(1, 3), r.Chance(1, 3)
		k.Status = []int{0, 0, 200, 201, 206, 404, 500}[r.Intn(7)]
		k.Forward = r.Chance(1, 6)
		k.TryHijack = r.Chance(1, 8)
		if k.FilterPre {
			k.Status = 0 // the filter has already sent the status line
		}
		k.Real = k.Entry == "ServeHTTP" && !k.Preset && !k.Prewrapped && ci%5 == 0
		k.CustomErr, k.CustomRec = r.Chance(1, 2), r.Chance(2, 3)
		k.Reused = r.Chance(1, 3)
		if ci%97 == 0 || ctx.OnlyCase >= 0 {
			ctx.Case(ci, core.JSON(k))
		}
		if k.Provider != curProvider {
			restful.SetCompressorProvider(providerFor(k.Provider))
			curProvider = k.Provider
		}
		obs, want := runC07(k, uint64(ci)+ctx.Seed*7919, k.AE)
		ctx.Eval(1)
		judgeC07(ctx, ci, k, obs, want)
	}
	// pairwise coverage actually reached
	ctx.Put("cells_in_run", len(cases))
}

type c07Obs struct {
	LenErr   error
	Status   int
	Header   http.Header
	Body     []byte
	Panic    interface{}
	CallerCE string // Content-Encoding owned by the caller (pre-set or pre-wrapped), "" if none
}

// runC07 executes one cell and returns the observation plus the logged bytes.
func runC07(k *c07Case, seed uint64, ae string) (*c07Obs, []byte) {
	payload := payloadBytes(k.Payload, seed)
	c := restful.NewContainer()
	if k.Payload%2 == 1 {
		// configuration calls may be repeated: the last one counts
		c.EnableContentEncoding(!k.Cont)
		c.DoNotRecover(true)
	}
	c.EnableContentEncoding(k.Cont)
	c.DoNotRecover(false)
	if k.CustomRec {
		c.RecoverHandler(func(v interface{}, w http.ResponseWriter) {
			msg := []byte(fmt.Sprintf("RECOVERED:%v", v))
			w.WriteHeader(500)
			// the recover handler has no request at hand: the log is attached to the panic value
			if pv, ok := v.(*c07Panic); ok {
				pv.log.write(w, msg)
			} else {
				w.Write(msg)
			}
		})
	}
	if k.CustomErr {
		c.ServiceErrorHandler(func(err restful.ServiceError, req *restful.Request, resp *restful.Response) {
			for h, vs := range err.Header {
				for _, v := range vs {
					resp.Header().Add(h, v)
				}
			}
			resp.WriteHeader(err.Code)
			wlogOf(req.Request).write(resp, []byte("ERR:"+err.Message))
		})
	}
	if k.FilterPre || k.FilterPost {
		c.Filter(func(req *restful.Request, resp *restful.Response, chain *restful.FilterChain) {
			if k.FilterPre {
				wlogOf(req.Request).write(resp, []byte("<<pre>>"))
			}
			chain.ProcessFilter(req, resp)
			if k.FilterPost {
				wlogOf(req.Request).write(resp, []byte("<<post>>"))
			}
		})
	}
	writeChunks := func(w io.Writer, r *http.Request, panicAfter int) {
		l := wlogOf(r)
		off := 0
		for i, n := range k.Chunks {
			if panicAfter >= 0 && i == panicAfter {
				panic(&c07Panic{log: l, text: "boom"})
			}
			l.write(w, payload[off:off+n])
			off += n
		}
		if panicAfter >= len(k.Chunks) {
			panic(&c07Panic{log: l, text: "boom"})
		}
	}
	ws := new(restful.WebService).Path("/e")
	okRoute := ws.GET("/ok").To(func(req *restful.Request, resp *restful.Response) {
		if k.TryHijack && !k.Real { // (behind a real server the connection CAN be hijacked: not this scenario)
			// a handler that would like to take over the connection (websocket upgrade) and falls back to a normal answer
			if conn, _, err := resp.Hijack(); err == nil {
				conn.Close()
				return
			}
		}
		if k.Status != 0 && k.Outcome == "ok" {
			resp.WriteHeader(k.Status)
		}
		switch k.Outcome {
		case "panic-before":
			panic(&c07Panic{log: wlogOf(req.Request), text: "boom"})
		case "panic-after":
			writeChunks(resp, req.Request, (len(k.Chunks)+1)/2)
		default:
			writeChunks(resp, req.Request, -1)
		}
	})
	fwdRoute := ws.GET("/fwd").To(func(req *restful.Request, resp *restful.Response) {
		// a forwarding handler: nothing written yet, the Response goes into a nested Dispatch for the real route
		r2 := req.Request.Clone(req.Request.Context())
		u := *req.Request.URL
		u.Path = "/e/ok"
		r2.URL = &u
		r2.RequestURI = "/e/ok"
		c.Dispatch(resp, r2)
		if k.Payload%2 == 0 {
			// and adds a footer of its own afterwards: it counts as written if (and only if) the call reports success
			footer := []byte("<<footer-after-forward>>")
			if n, err := resp.Write(footer); err == nil && n == len(footer) {
				if l := wlogOf(req.Request); l != nil {
					l.mu.Lock()
					l.b.Write(footer)
					l.mu.Unlock()
				}
			}
		}
	})
	jsonRoute := ws.GET("/json").Produces(restful.MIME_JSON).To(func(req *restful.Request, resp *restful.Response) {})
	postRoute := ws.POST("/post").Consumes(restful.MIME_JSON).To(func(req *restful.Request, resp *restful.Response) {})
	for i, rb := range []*restful.RouteBuilder{okRoute, fwdRoute, jsonRoute, postRoute} {
		switch k.Route {
		case "off":
			rb.ContentEncodingEnabled(false)
		case "on":
			rb.ContentEncodingEnabled(true)
		}
		ws.Route(rb)
		if k.Reused {
			// the builder is used again for a sibling route with the opposite setting: routes already built keep theirs
			ws.Route(rb.Path([]string{"/ok", "/fwd", "/json", "/post"}[i] + "-sibling").ContentEncodingEnabled(k.Route != "on"))
		}
	}
	c.Add(ws)
	plain := http.HandlerFunc(func(w http.ResponseWriter, r *http.Request) {
		if k.Forward && k.Outcome == "ok" && r.URL.Path != "/e/ok" {
			// a plain handler that forwards to the container's dispatcher and adds a footer afterwards: the footer counts as
			// written if (and only if) the call reports success
			r2 := r.Clone(r.Context())
			u := *r.URL
			u.Path = "/e/ok"
			r2.URL = &u
			r2.RequestURI = "/e/ok"
			c.Dispatch(w, r2)
			footer := []byte("<<footer-of-the-plain-handler>>")
			if n, err := w.Write(footer); err == nil && n == len(footer) {
				if l := wlogOf(r); l != nil {
					l.mu.Lock()
					l.b.Write(footer)
					l.mu.Unlock()
				}
			}
			return
		}
		writeChunks(w, r, -1)
	})
	if k.Payload%3 == 1 {
		// the switch had another position while the handlers were registered; the position at request time counts
		c.EnableContentEncoding(!k.Cont)
	}
	c.Handle("/h/", plain)
	c.HandleWithFilter("/hf/", plain)
	c.EnableContentEncoding(k.Cont)

	req := rt.Req{Method: "GET", Path: "/e/ok", Hdr: map[string]string{}}
	if k.Forward && k.Outcome == "ok" {
		req.Path = "/e/fwd" // (entries Handle / HandleWithFilter: their plain handler forwards, see below)
	}
	switch k.Outcome {
	case "404":
		req.Path = "/e/missing"
	case "405":
		req.Method = "DELETE"
	case "406":
		req.Path, req.HasAcc, req.Accept = "/e/json", true, "text/plain"
	case "415":
		req.Method, req.Path, req.HasCT, req.CT, req.BodyLen = "POST", "/e/post", true, "text/plain", 3
	}
	switch k.Entry {
	case "Handle":
		req.Path = "/h/x"
	case "HandleWithFilter":
		req.Path = "/hf/x"
	}
	if ae != "-" {
		req.Hdr["Accept-Encoding"] = ae
	}
	l := &wlog{}
	if k.Real {
		return runC07Real(c, &req, l, seed)
	}
	hr := rt.HTTPRequest(&req, nil)
	hr = hr.WithContext(context.WithValue(context.Background(), wlogKey{}, l))
	rec := rt.NewRec()
	obs := &c07Obs{}
	var w http.ResponseWriter = rec
	var outer *restful.CompressingResponseWriter
	if k.Preset {
		rec.Header().Set("Content-Encoding", "br")
		obs.CallerCE = "br"
	} else if k.Prewrapped {
		outer, _ = restful.NewCompressingResponseWriter(rec, "gzip")
		w = outer
		obs.CallerCE = "gzip"
	} else if k.TryHijack && k.Payload%2 == 1 {
		// the container is the handler of an outer layer that handed it a *restful.Response: that writer HAS a Hijack method,
		// which reports that the connection underneath cannot be taken over
		w = restful.NewResponse(rec)
	}
	func() {
		defer func() { obs.Panic = recover() }()
		if k.Entry == "Dispatch" {
			c.Dispatch(w, hr)
		} else {
			c.ServeHTTP(w, hr)
		}
	}()
	if outer != nil {
		outer.Close()
	}
	obs.Status, obs.Header = rec.Code(), rec.Hdr()
	obs.Body, obs.LenErr = rec.ClientBody()
	return obs, l.b.Bytes()
}

// runC07Real serves the request through a real net/http server and reads it with an http.Client that does not
// decompress on its own: Content-Length / chunking, the server's own header handling and connection reuse are real.
func runC07Real(c *restful.Container, req *rt.Req, l *wlog, seed uint64) (*c07Obs, []byte) {
	id := fmt.Sprintf("w%d", seed)
	wlogByID.Store(id, l)
	defer wlogByID.Delete(id)
	srv := httptest.NewServer(c)
	defer srv.Close()
	var body io.Reader
	if req.BodyLen > 0 {
		body = strings.NewReader(strings.Repeat("b", req.BodyLen))
	}
	hreq, err := http.NewRequest(req.Method, srv.URL+req.Path, body)
	obs := &c07Obs{}
	if err != nil {
		obs.LenErr = err
		return obs, l.b.Bytes()
	}
	for k, v := range req.Hdr {
		hreq.Header.Set(k, v)
	}
	if req.HasCT {
		hreq.Header.Set("Content-Type", req.CT)
	}
	if req.HasAcc {
		hreq.Header.Set("Accept", req.Accept)
	}
	if _, ok := req.Hdr["Accept-Encoding"]; !ok {
		hreq.Header.Set("Accept-Encoding", "identity;q=0.001") // keep the transport from asking for gzip on its own
		hreq.Header.Del("Accept-Encoding")
	}
	hreq.Header.Set("X-Wlog", id)
	client := &http.Client{Transport: &http.Transport{DisableCompression: true}}
	resp, err := client.Do(hreq)
	if err != nil {
		obs.LenErr = fmt.Errorf("client: %v", err)
		return obs, l.b.Bytes()
	}
	defer resp.Body.Close()
	b, rerr := io.ReadAll(resp.Body)
	obs.Status, obs.Header, obs.Body = resp.StatusCode, resp.Header, b
	if rerr != nil {
		obs.LenErr = fmt.Errorf("client reading the body: %v", rerr)
	}
	client.CloseIdleConnections()
	return obs, l.b.Bytes()
}

type c07Panic struct {
	log  *wlog
	text string
}

func (p *c07Panic) String() string { return p.text }

func judgeC07(ctx *core.Ctx, ci int, k *c07Case, obs *c07Obs, logged []byte) {
	on := func(b bool) string {
		if b {
			return "on"
		}
		return "off"
	}
	cell := fmt.Sprintf("entry=%s:cont=%s:route=%s", k.Entry, on(k.Cont), k.Route)
	if k.Real {
		ctx.Count("responses_read_by_a_real_http_client", 1)
	}
	doc := map[string]interface{}{"case": k, "status": obs.Status, "content_encoding": obs.Header["Content-Encoding"], "body_len": len(obs.Body), "logged_len": len(logged)}
	if obs.Panic != nil {
		ctx.Violation(ci, "c07:panic-escaped:"+cell, fmt.Sprintf("panic escaped although recovery is on: %v", obs.Panic), doc)
		return
	}
	if obs.LenErr != nil {
		ctx.Violation(ci, "c07:content-length:"+cell+":outcome="+k.Outcome, obs.LenErr.Error(), doc)
		return
	}
	ces := obs.Header["Content-Encoding"]
	if len(ces) > 1 {
		ctx.Violation(ci, "c07:label-count:"+cell, fmt.Sprintf("%d Content-Encoding headers: %v", len(ces), ces), doc)
		return
	}
	ce := ""
	if len(ces) == 1 {
		ce = ces[0]
	}
	routed := k.Entry == "ServeHTTP" || k.Entry == "Dispatch"
	enabled := k.Cont
	if routed && (k.Outcome == "ok" || strings.HasPrefix(k.Outcome, "panic")) && k.Route != "unset" {
		enabled = k.Route == "on"
	}
	applied := false
	expectBody := logged
	defaultRecover := strings.HasPrefix(k.Outcome, "panic") && !k.CustomRec
	defaultErr := !k.CustomErr && (k.Outcome == "404" || k.Outcome == "405" || k.Outcome == "406" || k.Outcome == "415")
	if defaultErr {
		// text of the default error writer: take it from the identity twin (same cell, no Accept-Encoding, nothing pre-set)
		tk := *k
		tk.Preset, tk.Prewrapped = false, false
		tobs, tlog := runC07(&tk, uint64(ci)+ctx.Seed*7919, "-")
		expectBody = append(append([]byte{}, tobs.Body...), []byte{}...)
		_ = tlog
	}
	plain := obs.Body
	switch {
	case obs.CallerCE != "":
		// the coding (if any) belongs to the caller: the container must not add one
		if ce != obs.CallerCE {
			ctx.Violation(ci, "c07:preset-changed:"+cell, fmt.Sprintf("writer arrived with Content-Encoding %q, response has %q", obs.CallerCE, ce), doc)
			return
		}
		if obs.CallerCE == "gzip" {
			dec, err := decodeComplete("gzip", obs.Body)
			if err != nil {
				ctx.Violation(ci, "c07:prewrapped-stream:"+cell, fmt.Sprintf("stream of the caller's CompressingResponseWriter does not decode: %v", err), doc)
				return
			}
			plain = dec
		}
	case ce != "":
		applied = true
		if ce != "gzip" && ce != "deflate" {
			ctx.Violation(ci, "c07:label:"+cell, fmt.Sprintf("Content-Encoding %q is neither gzip nor deflate", ce), doc)
			return
		}
		if !strings.Contains(k.AE, ce) {
			ctx.Violation(ci, "c07:not-requested:"+cell+":ae="+k.AE+":ce="+ce, fmt.Sprintf("response is %s-encoded but Accept-Encoding is %q", ce, k.AE), doc)
			return
		}
		if !enabled {
			ctx.Violation(ci, "c07:not-enabled:"+cell, fmt.Sprintf("response is %s-encoded although encoding is not enabled for this request (container %s, route %s, outcome %s)", ce, on(k.Cont), k.Route, k.Outcome), doc)
			// keep judging the stream
		}
		dec, err := decodeComplete(ce, obs.Body)
		if err != nil {
			ctx.Violation(ci, "c07:incomplete-stream:"+cell+":outcome="+k.Outcome, fmt.Sprintf("%s stream does not decode completely: %v (decoded %d of %d logged bytes)", ce, err, len(dec), len(logged)), doc)
			return
		}
		plain = dec
	}
	if defaultRecover {
		// partial output, then the default recover text
		if !bytes.HasPrefix(plain, logged) || !bytes.Contains(plain[len(logged):], []byte("recover from panic situation: - ")) {
			ctx.Violation(ci, "c07:recover-body:"+cell, fmt.Sprintf("recovered response is not <partial output><default recover text>: %.80q...", plain), doc)
		}
	} else if !bytes.Equal(plain, expectBody) {
		cls := "body-differs"
		if applied || obs.CallerCE == "gzip" {
			if _, err := decodeComplete("gzip", plain); err == nil && len(plain) > 0 {
				cls = "double-encoded"
			} else if _, err := decodeComplete("deflate", plain); err == nil && len(plain) > 0 {
				cls = "double-encoded"
			}
		}
		ctx.Violation(ci, "c07:"+cls+":"+cell+":outcome="+k.Outcome, fmt.Sprintf("client sees %d bytes (%.40q...), written were %d bytes (%.40q...)", len(plain), plain, len(expectBody), expectBody), doc)
		return
	}
	if k.Outcome == "ok" && (k.Entry == "ServeHTTP" || k.Entry == "Dispatch") && k.Status != 0 && obs.Status != k.Status {
		ctx.Violation(ci, "c07:status:"+cell, fmt.Sprintf("handler wrote status %d, client sees %d", k.Status, obs.Status), doc)
	}
	if strings.HasPrefix(k.Outcome, "panic") && obs.Status != 500 && len(logged) == 0 {
		ctx.Violation(ci, "c07:panic-status:"+cell, fmt.Sprintf("recovered panic before any output answered %d", obs.Status), doc)
	}
	if applied {
		ctx.Count("responses_with_applied_coding", 1)
		ctx.SetAdd("applied_codings", ce)
	}
	if applied || len(plain) > 0 {
		ctx.Sig(fmt.Sprintf("%s|ae=%s|preset=%v|%s|pw=%v|applied=%v", cell, k.AE, k.Preset, k.Outcome, k.Prewrapped, applied))
	}
	ctx.SetAdd("providers", k.Provider)
	ctx.Max("max_payload", k.Payload)
	if ctx.WantSample() && applied && k.Payload > 1 {
		ctx.Sample(map[string]interface{}{"case": k, "content_encoding": ce, "status": obs.Status, "encoded_len": len(obs.Body), "decoded_len": len(plain)})
	}
}
