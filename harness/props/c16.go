package props

import (
	"bytes"
	"compress/gzip"
	"compress/zlib"
	"context"
	"encoding/json"
	"encoding/xml"
	"fmt"
	"io"
	"math"
	"reflect"
	"strings"
	"sync"
	"sync/atomic"

	restful "github.com/emicklei/go-restful/v3"

	"verifharness/core"
	"verifharness/rt"
)

func init() { register("C16", c16) }

// c16Vendor: a custom media type registered (with the JSON accessor) under a key that is not all lower case.
const c16Vendor = "application/vnd.Verif.Doc+json"

type rtInner struct {
	S string  `json:"s" xml:"s"`
	F float64 `json:"f" xml:"f"`
	B bool    `json:"b" xml:"b"`
	N int64   `json:"n" xml:"n"`
}

type rtEntity struct {
	XMLName xml.Name  `json:"-" xml:"ent"`
	I64     int64     `json:"i64" xml:"i64"`
	U64     uint64    `json:"u64" xml:"u64"`
	I32     int32     `json:"i32" xml:"i32"`
	F       float64   `json:"f" xml:"f"`
	B       bool      `json:"b" xml:"b"`
	S       string    `json:"s" xml:"s"`
	Attr    string    `json:"attr" xml:"attr,attr"`
	Inner   rtInner   `json:"inner" xml:"inner"`
	List    []rtInner `json:"list" xml:"list>item"`
	Strs    []string  `json:"strs" xml:"strs"`
}

var (
	xmlRunes  = []rune("abcXYZ019 <>&'\"\t\n\r=/;:{}[]\\éüñ日本語😀\u00a0\u3000\ufffd")
	jsonRunes = append([]rune("\x00\x01\x1f\x7f\u2028\ufeff"), xmlRunes...)
)

func genString(r *core.Rand, xmlSafe bool) string {
	pool := jsonRunes
	if xmlSafe {
		pool = xmlRunes
	}
	n := r.Intn(12)
	if r.Chance(1, 10) {
		n = r.Range(100, 400)
	}
	if r.Chance(1, 40) {
		return strings.Repeat("a", 40000) // an entity that compresses several hundred times
	}
	if r.Chance(1, 25) {
		// multi-byte characters around the buffer sizes code likes to use: an ASCII run of 0-3 bytes shifts the
		// 2-, 3- and 4-byte characters over every alignment of the boundary
		size := []int{512, 1024, 4096, 8192, 32768, 65536}[r.Intn(6)]
		unit := []string{"é", "日", "😀"}[r.Intn(3)]
		return strings.Repeat("x", r.Intn(4)) + strings.Repeat(unit, size/len(unit)+2)
	}
	rs := make([]rune, n)
	for i := range rs {
		rs[i] = pool[r.Intn(len(pool))]
	}
	return string(rs)
}

func genFloat(r *core.Rand) float64 {
	switch r.Intn(8) {
	case 0:
		return 0
	case 1:
		return 1.5
	case 2:
		return -1e-7
	case 3:
		return 1e21
	case 4:
		return math.MaxFloat64
	case 5:
		return math.SmallestNonzeroFloat64
	}
	for {
		f := math.Float64frombits(r.U64())
		if !math.IsNaN(f) && !math.IsInf(f, 0) {
			return f
		}
	}
}

func genInt64(r *core.Rand) int64 {
	switch r.Intn(6) {
	case 0:
		return math.MaxInt64
	case 1:
		return math.MinInt64
	case 2:
		return 1<<53 + 1 // not representable as float64
	case 3:
		return -(1<<53 + 1)
	}
	return int64(r.U64())
}

func genInner(r *core.Rand, xmlSafe bool) rtInner {
	return rtInner{S: genString(r, xmlSafe), F: genFloat(r), B: r.Chance(1, 2), N: genInt64(r)}
}

func genEntity(r *core.Rand, xmlSafe bool) rtEntity {
	e := rtEntity{I64: genInt64(r), U64: r.U64(), I32: int32(r.U64()), F: genFloat(r), B: r.Chance(1, 2), S: genString(r, xmlSafe), Attr: genString(r, xmlSafe), Inner: genInner(r, xmlSafe)}
	if r.Chance(1, 4) {
		e.U64 = math.MaxUint64
	}
	nl := r.Range(1, 3)
	if r.Chance(1, 30) {
		nl = []int{17, 65, 130}[r.Intn(3)] // long lists
	}
	for i := 0; i < nl; i++ {
		e.List = append(e.List, genInner(r, xmlSafe))
	}
	for i := 0; i < r.Range(1, 3); i++ {
		e.Strs = append(e.Strs, genString(r, xmlSafe))
	}
	return e
}

func compressBody(coding string, b []byte) []byte {
	var out bytes.Buffer
	switch coding {
	case "gzip-multi":
		// a legal gzip body made of several members (pigz, concatenated parts)
		cut := len(b) / 3
		for _, part := range [][]byte{b[:cut], b[cut : 2*cut], b[2*cut:]} {
			w := gzip.NewWriter(&out)
			w.Write(part)
			w.Close()
		}
	case "gzip":
		w := gzip.NewWriter(&out)
		w.Write(b)
		w.Close()
	case "deflate":
		w := zlib.NewWriter(&out)
		w.Write(b)
		w.Close()
	default:
		return b
	}
	return out.Bytes()
}

// refDecode is the reference pipeline: fresh stdlib readers, same decoders.
func refDecode(kind, coding string, body []byte) (rtEntity, error) {
	var v rtEntity
	var rd io.Reader = bytes.NewReader(body)
	switch coding {
	case "gzip", "gzip-multi":
		gr, err := gzip.NewReader(rd)
		if err != nil {
			return v, err
		}
		rd = gr
	case "deflate":
		zr, err := zlib.NewReader(rd)
		if err != nil {
			return v, err
		}
		rd = zr
	}
	if kind == "xml" {
		return v, xml.NewDecoder(rd).Decode(&v)
	}
	d := json.NewDecoder(rd)
	d.UseNumber()
	return v, d.Decode(&v)
}

type c16Item struct {
	Kind    string `json:"kind"`   // json | xml
	Coding  string `json:"coding"` // "" | gzip | deflate
	CT      string `json:"content_type"`
	HasCT   bool   `json:"has_content_type"`
	Broken  string `json:"broken,omitempty"`
	Pretty  bool   `json:"pretty"`
	Untyped bool   `json:"untyped_target"` // JSON read into map[string]interface{}: numbers must arrive as exact json.Number
	body    []byte
	orig    rtEntity
	wantErr bool
	want    rtEntity
}

type c16Result struct {
	got      rtEntity
	gotAny   map[string]interface{}
	untyped  bool
	err      error
	panicked interface{}
}

type c16Key struct{}

var c16Sequential int32 // 1 while the sequential phase of a history runs

func breakBody(r *core.Rand, it *c16Item, plain []byte) {
	enc := compressBody(it.Coding, plain)
	kinds := []string{"syntax", "truncated-doc", "empty", "one-byte", "two-bytes"}
	if it.Coding != "" {
		kinds = append(kinds, "bad-magic", "declared-but-plain", "garbage", "truncated-stream", "trailer-cut", "trailer-flip", "syntax-inside")
	}
	it.Broken = r.Pick(kinds)
	switch it.Broken {
	case "syntax":
		p := append([]byte{}, plain...)
		if len(p) > 2 {
			p[len(p)/2] = '\x00'
			p = append(p[:len(p)/3], p[len(p)/3+1:]...)
		}
		it.body = compressBody(it.Coding, p)
	case "syntax-inside":
		it.body = compressBody(it.Coding, plain[:len(plain)/2])
	case "truncated-doc":
		it.body = compressBody(it.Coding, plain[:len(plain)*2/3])
	case "empty":
		it.body = []byte{}
	case "one-byte":
		it.body = append([]byte{}, enc[:1]...)
	case "two-bytes":
		it.body = append([]byte{}, enc[:2]...)
	case "bad-magic":
		it.body = append([]byte{'X', 'Y'}, enc[2:]...)
	case "declared-but-plain":
		it.body = plain
	case "garbage":
		g := make([]byte, r.Range(1, 60))
		for i := range g {
			g[i] = byte(r.U64())
		}
		it.body = g
	case "truncated-stream":
		it.body = enc[:r.Range(1, len(enc)-1)]
	case "trailer-cut":
		it.body = enc[:len(enc)-r.Range(1, 4)]
	case "trailer-flip":
		it.body = append([]byte{}, enc...)
		it.body[len(it.body)-1] ^= 0xff
	}
}

func c16(ctx *core.Ctx) {
	restful.RegisterEntityAccessor(c16Vendor, restful.NewEntityAccessorJSON(c16Vendor))
	quietLogs()
	ctx.Rule("values of a generated struct family (int64/uint64 extremes and 2^53+1, int32, float64 incl. max/denormal/random bit patterns, bool, attribute, nested struct, non-empty slices, strings over ASCII/markup/control/unicode runes restricted to XML Char for XML) are written by the framework's own entity writer (pretty on/off), optionally gzip- (single or multi-member) / deflate-compressed by the harness and posted to an echo route calling ReadEntity into the struct or (JSON, every 4th) into an untyped map where numbers must arrive as exact json.Number; Content-Type spellings with parameters and optional whitespace, or absent with a default request content type, or the written response's Content-Type verbatim (with a filter that pre-set the other codec's type; with a registered vendor type whose key has upper-case letters); both providers (fresh instances, or the instances that were installed and replaced before); in the sequential phase every third echo handler closes the request body after a successful ReadEntity; a vendor type that clients send in several spellings before its accessor is registered, and again afterwards. Histories of 24 requests interleave well-formed bodies with broken ones {syntax, truncated document, empty, bad magic, declared-but-plain, garbage, truncated stream, trailer cut/flipped, syntax inside a valid stream}; run sequentially and from 16 goroutines (race detector on). Oracle: reference decode with fresh stdlib readers: error iff the reference errs (never a panic), value DeepEqual to the original / the reference value; every well-formed request round-trips whatever came before. Non-trivial = every judged request; distinct by (codec, coding, content-type spelling, broken kind, pretty, provider, mode).")
	ctx.Assume("an error is demanded only when the stdlib reference decode of the same bytes errs (a stream missing only its trailer decodes fine, DESIGN §4.8)")
	defer restful.SetCompressorProvider(restful.NewSyncPoolCompessors())
	defer restful.DefaultRequestContentType("")
	defer func() { restful.PrettyPrintResponses = true }()
	ctSpell := map[string][]string{
		"json": {"application/json", "application/json; charset=utf-8", "application/json;charset=UTF-8", "application/json ; charset=utf-8", " application/json", "application/json;q=1", "application/json; charset=\"utf-8\"", "application/json; alt=application/xml", "application/json;profile=\"application/xml\""},
		"xml":  {"application/xml", "application/xml; charset=utf-8", "application/xml;charset=UTF-8", "application/xml ; charset=utf-8", " application/xml", "application/xml; charset=\"UTF-8\"", "application/xml; alt=application/json"},
	}
	hists := ctx.N(60, 2500)
	// provider instances live as long as the process: an application switches between the ones it has (A, B, A again)
	provs := map[string]restful.CompressorProvider{"bounded1": restful.NewBoundedCachedCompressors(1, 1), "bounded4": restful.NewBoundedCachedCompressors(4, 4),
		"mutex": &mutexProvider{}, "syncpool": restful.NewSyncPoolCompessors()}
	for hi := 0; hi < hists; hi++ {
		if ctx.Skip(hi) {
			continue
		}
		r := ctx.Rand(hi, "hist")
		prov := []string{"syncpool", "bounded1", "bounded4", "mutex"}[hi%4]
		if hi%8 < 4 {
			restful.SetCompressorProvider(provs[prov]) // the instance that was installed (and replaced) before
		} else {
			switch prov {
			case "bounded1":
				restful.SetCompressorProvider(restful.NewBoundedCachedCompressors(1, 1))
			case "bounded4":
				restful.SetCompressorProvider(restful.NewBoundedCachedCompressors(4, 4))
			case "mutex":
				restful.SetCompressorProvider(&mutexProvider{})
			default:
				restful.SetCompressorProvider(restful.NewSyncPoolCompessors())
			}
		}
		defKind := []string{"", "json", "xml"}[hi%3]
		switch defKind {
		case "json":
			restful.DefaultRequestContentType(restful.MIME_JSON)
		case "xml":
			restful.DefaultRequestContentType(restful.MIME_XML)
		default:
			restful.DefaultRequestContentType("")
		}
		ctx.Case(hi, fmt.Sprintf("provider=%s default_request_content_type=%s", prov, defKind))
		c := restful.NewContainer()
		// a filter that declares the API's usual Content-Type before the handler runs (on demand of the request)
		c.Filter(func(req *restful.Request, resp *restful.Response, chain *restful.FilterChain) {
			if v := req.Request.Header.Get("X-Preset-Ct"); v != "" {
				resp.Header().Set("Content-Type", v)
			}
			chain.ProcessFilter(req, resp)
		})
		ws := new(restful.WebService).Path("/rt")
		ws.Route(ws.GET("/w").Produces(restful.MIME_JSON, restful.MIME_XML, c16Vendor).To(func(req *restful.Request, resp *restful.Response) {
			resp.WriteEntity(req.Request.Context().Value(c16Key{}).(rtEntity))
		}))
		ws.Route(ws.POST("/echo").To(func(req *restful.Request, resp *restful.Response) {
			res := req.Request.Context().Value(c16Key{}).(*c16Result)
			if res.untyped {
				res.err = req.ReadEntity(&res.gotAny)
			} else {
				res.err = req.ReadEntity(&res.got)
			}
			if req.Request.Header.Get("X-Close-Body") != "" && res.err == nil {
				// tidy handlers close what they have read. Only in the sequential phase and after a successful read: ReadEntity
				// leaves Request.Body pointing at the pooled reader it has already released (see DESIGN 4.17), so closing it
				// while other requests are in flight, or after a failed Reset, is not something the properties speak about
				req.Request.Body.Close()
			}
			resp.WriteHeader(204)
		}))
		c.Add(ws)
		// build the history
		var items []*c16Item
		for q := 0; q < 24; q++ {
			it := &c16Item{Kind: []string{"json", "xml"}[r.Intn(2)], Coding: []string{"", "gzip", "deflate", "gzip-multi"}[r.Intn(4)], Pretty: r.Chance(1, 2)}
			it.orig = genEntity(r, it.Kind == "xml")
			it.HasCT, it.CT = true, r.Pick(ctSpell[it.Kind])
			it.Untyped = it.Kind == "json" && r.Chance(1, 4)
			if defKind == it.Kind && r.Chance(1, 3) {
				it.HasCT = false // rely on the default request content type
				if r.Chance(1, 2) {
					it.HasCT, it.CT = true, "*/*"
				}
			}
			// written by the framework's own entity writer
			restful.PrettyPrintResponses = it.Pretty
			wreq := rt.Req{Method: "GET", Path: "/rt/w", HasAcc: true, Accept: map[string]string{"json": restful.MIME_JSON, "xml": restful.MIME_XML}[it.Kind], Hdr: map[string]string{}}
			sameCT := false
			switch {
			case q%4 == 2:
				// a Content-Type of the OTHER codec is already on the response when the entity is written
				wreq.Hdr["X-Preset-Ct"] = map[string]string{"json": restful.MIME_XML, "xml": restful.MIME_JSON}[it.Kind]
				sameCT = true
			case q%8 == 5 && it.Kind == "json":
				// a registered vendor type whose key is not all lower case
				wreq.Accept = c16Vendor
				sameCT = true
			}
			hr := rt.HTTPRequest(&wreq, nil)
			hr = hr.WithContext(context.WithValue(context.Background(), c16Key{}, it.orig))
			rec := rt.NewRec()
			c.Dispatch(rec, hr)
			plain := append([]byte{}, rec.Body.Bytes()...)
			if sameCT {
				// "read back with the entity reader selected by the same Content-Type": the response's, verbatim
				it.HasCT, it.CT = true, rec.Hdr().Get("Content-Type")
				ctx.Count("items_read_back_with_the_written_content_type", 1)
			}
			if rec.Code() != 200 || len(plain) == 0 {
				ctx.Violation(hi, "c16:write-failed:"+it.Kind, fmt.Sprintf("entity writer answered %d with %d bytes", rec.Code(), len(plain)), map[string]interface{}{"item": it})
				continue
			}
			it.body = compressBody(it.Coding, plain)
			if q%3 == 1 {
				breakBody(r, it, plain)
			}
			ref, err := refDecode(it.Kind, it.Coding, it.body)
			it.wantErr = err != nil
			it.want = ref
			if it.Broken == "" && err != nil {
				ctx.Violation(hi, "c16:reference-rejects-written:"+it.Kind, "the stdlib cannot read what the entity writer wrote: "+err.Error(), map[string]interface{}{"item": it, "body": string(plain)})
				continue
			}
			items = append(items, it)
		}
		send := func(it *c16Item) *c16Result {
			res := &c16Result{untyped: it.Untyped}
			req := rt.Req{Method: "POST", Path: "/rt/echo", HasCT: it.HasCT, CT: it.CT, Hdr: map[string]string{}, BodyLen: len(it.body)}
			if it.Coding != "" {
				req.Hdr["Content-Encoding"] = strings.TrimSuffix(it.Coding, "-multi")
			}
			if len(it.body)%3 == 1 && atomic.LoadInt32(&c16Sequential) == 1 {
				req.Hdr["X-Close-Body"] = "1"
			}
			hr := rt.HTTPRequest(&req, nil)
			hr.Body = io.NopCloser(bytes.NewReader(it.body))
			hr.ContentLength = int64(len(it.body))
			hr = hr.WithContext(context.WithValue(context.Background(), c16Key{}, res))
			func() {
				defer func() { res.panicked = recover() }()
				c.Dispatch(rt.NewRec(), hr)
			}()
			return res
		}
		judge := func(it *c16Item, res *c16Result, mode string, prevBroken string) {
			ctx.Eval(1)
			cell := fmt.Sprintf("%s:%s:%s", it.Kind, it.Coding, mode)
			doc := map[string]interface{}{"item": it, "provider": prov, "default": defKind, "mode": mode, "after_broken": prevBroken, "body_len": len(it.body)}
			if res.err != nil {
				doc["error"] = res.err.Error()
			}
			ctSig := "ct=param"
			switch {
			case !it.HasCT:
				ctSig = "ct=absent"
			case it.CT == "*/*":
				ctSig = "ct=star"
			case strings.Contains(it.CT, " ;"):
				ctSig = "ct=ows"
			case !strings.Contains(it.CT, ";"):
				ctSig = "ct=plain"
			}
			ctx.Sig(fmt.Sprintf("%s|%s|%s|pretty=%v|%s|after=%v", cell, ctSig, it.Broken, it.Pretty, prov, prevBroken != ""))
			if res.panicked != nil {
				ctx.Violation(hi, "c16:panic:"+cell+":"+it.Broken, fmt.Sprintf("ReadEntity panicked on a %q body: %v", it.Broken, res.panicked), doc)
				return
			}
			if it.wantErr {
				ctx.Count("broken_bodies_judged", 1)
				if res.err == nil {
					ctx.Violation(hi, "c16:no-error:"+cell+":"+it.Broken, fmt.Sprintf("a %q body was read without error (the reference decode fails)", it.Broken), doc)
				}
				return
			}
			want := it.want
			if it.Broken == "" {
				want = it.orig
				ctx.Count("wellformed_judged", 1)
				if prevBroken != "" {
					ctx.Count("wellformed_after_broken", 1)
				}
			}
			if res.err != nil {
				sig := "c16:error-on-wellformed:" + cell + ":" + ctSig
				if prevBroken != "" {
					sig += ":after-broken"
				}
				ctx.Violation(hi, sig, fmt.Sprintf("reading a well-formed %s body (Content-Type %q present=%v, coding %q) failed: %v", it.Kind, it.CT, it.HasCT, it.Coding, res.err), doc)
				return
			}
			if it.Untyped {
				// the untyped view of the document: every number is a json.Number carrying the exact digits
				var ref map[string]interface{}
				plainDoc, _ := json.Marshal(want)
				d := json.NewDecoder(bytes.NewReader(plainDoc))
				d.UseNumber()
				d.Decode(&ref)
				ctx.Count("untyped_targets_judged", 1)
				if !reflect.DeepEqual(res.gotAny, ref) {
					doc["got"], doc["want"] = fmt.Sprintf("%v", res.gotAny), fmt.Sprintf("%v", ref)
					ctx.Violation(hi, "c16:untyped-value-differs:"+cell, fmt.Sprintf("untyped value read back differs from the document written (i64=%v u64=%v, want %d / %d)", res.gotAny["i64"], res.gotAny["u64"], want.I64, want.U64), doc)
				}
				return
			}
			g, w := res.got, want
			g.XMLName, w.XMLName = xml.Name{}, xml.Name{}
			if !reflect.DeepEqual(g, w) {
				sig := "c16:value-differs:" + cell
				if prevBroken != "" {
					sig += ":after-broken"
				}
				doc["got"], doc["want"] = fmt.Sprintf("%+v", g), fmt.Sprintf("%+v", w)
				ctx.Violation(hi, sig, fmt.Sprintf("value read back differs from the value written (%s, coding %q)", it.Kind, it.Coding), doc)
			}
		}
		prev := ""
		for _, it := range items {
			atomic.StoreInt32(&c16Sequential, 1)
			judge(it, send(it), "sequential", prev)
			atomic.StoreInt32(&c16Sequential, 0)
			prev = it.Broken
		}
		// the same history from 16 goroutines at once (each goroutine walks the whole list from its own offset)
		var wg sync.WaitGroup
		for g := 0; g < 16; g++ {
			wg.Add(1)
			go func(g int) {
				defer wg.Done()
				prev := ""
				for k := 0; k < len(items); k++ {
					it := items[(k+g*5)%len(items)]
					judge(it, send(it), "concurrent", prev)
					prev = it.Broken
				}
			}(g)
		}
		wg.Wait()
		if ctx.WantSample() && len(items) > 3 {
			ctx.Sample(map[string]interface{}{"provider": prov, "default": defKind, "history": items[:4], "first_value": fmt.Sprintf("%+v", items[0].orig)})
		}
	}
	// configuration in the other order: the default request content type names a vendor type whose accessor is
	// registered only afterwards; a body without Content-Type must be read with it all the same
	if ctx.OnlyCase < 0 && ctx.Shard == 0 {
		const vendor = "application/vnd.verif.late+json"
		restful.DefaultRequestContentType(vendor)
		restful.RegisterEntityAccessor(vendor, restful.NewEntityAccessorJSON(vendor))
		c := restful.NewContainer()
		ws := new(restful.WebService).Path("/late")
		var got rtEntity
		var rerr error
		ws.Route(ws.POST("/").To(func(req *restful.Request, resp *restful.Response) {
			got = rtEntity{}
			rerr = req.ReadEntity(&got)
			resp.WriteHeader(204)
		}))
		c.Add(ws)
		r := ctx.Rand(999999, "late")
		for q := 0; q < 20; q++ {
			orig := genEntity(r, false)
			body, _ := json.Marshal(orig)
			req := rt.Req{Method: "POST", Path: "/late/", Body: body, BodyLen: len(body)}
			if q%2 == 1 {
				req.HasCT, req.CT = true, "*/*"
			}
			rt.Run(c, rt.Dispatch, &req)
			ctx.Eval(1)
			ctx.Count("late_registered_default_type_reads", 1)
			g, w := got, orig
			g.XMLName, w.XMLName = xml.Name{}, xml.Name{}
			if rerr != nil || !reflect.DeepEqual(g, w) {
				ctx.Violation(-1, "c16:default-type-registered-late", fmt.Sprintf("DefaultRequestContentType(%q) was set before its accessor was registered; a body without Content-Type is not read back: err=%v", vendor, rerr),
					map[string]interface{}{"content_type_present": req.HasCT, "error": fmt.Sprint(rerr)})
				break
			}
		}
		ctx.Sig("default-type-registered-late")
		// a vendor type that clients already send (in several spellings) BEFORE the application registers its accessor: those
		// requests fail, which is fine; from the registration on every spelling is read back
		const later = "application/vnd.verif.later+json"
		restful.DefaultRequestContentType("") // no default to fall back on
		spell := []string{later, later + "; charset=utf-8", later + ";charset=UTF-8", later + " ; charset=\"utf-8\"", " " + later, later + ";v=2"}
		for phase := 0; phase < 2; phase++ {
			if phase == 1 {
				restful.RegisterEntityAccessor(later, restful.NewEntityAccessorJSON(later))
			}
			for q := 0; q < 4*len(spell); q++ {
				orig := genEntity(r, false)
				body, _ := json.Marshal(orig)
				req := rt.Req{Method: "POST", Path: "/late/", Body: body, BodyLen: len(body), HasCT: true, CT: spell[q%len(spell)]}
				out := rt.Run(c, rt.Dispatch, &req)
				ctx.Eval(1)
				if out.Panicked {
					ctx.Violation(-1, "c16:panic:type-registered-later", "panic: "+out.Panic, map[string]interface{}{"content_type": req.CT, "phase": phase})
					break
				}
				if phase == 0 {
					ctx.Count("reads_before_the_accessor_was_registered", 1)
					continue
				}
				ctx.Count("reads_after_the_accessor_was_registered", 1)
				g, w := got, orig
				g.XMLName, w.XMLName = xml.Name{}, xml.Name{}
				if rerr != nil || !reflect.DeepEqual(g, w) {
					ctx.Violation(-1, "c16:type-registered-later", fmt.Sprintf("Content-Type %q was sent (and refused) before its accessor was registered; after RegisterEntityAccessor(%q) a well-formed body is still not read back: err=%v", req.CT, later, rerr),
						map[string]interface{}{"content_type": req.CT, "error": fmt.Sprint(rerr)})
					break
				}
			}
		}
		ctx.Sig("type-registered-later")
	}
}
