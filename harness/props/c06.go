package props

import (
	"context"
	"fmt"
	"net/http"
	"runtime"
	"strings"
	"sync"
	"sync/atomic"
	"time"

	restful "github.com/emicklei/go-restful/v3"

	"verifharness/core"
	"verifharness/rt"
)

func init() { register("C06", c06) }

// ---- event log ----

type hand struct {
	Req, Resp, HReq, Writer, Attrs string
}

type fEvent struct {
	Kind string `json:"kind"` // enter | pass | exit
	Name string `json:"name"`
	T    hand   `json:"t"`
}

type fLog struct {
	mu  sync.Mutex
	Evs []fEvent
}

type fLogKey struct{}

func fLogOf(r *http.Request) *fLog {
	l, _ := r.Context().Value(fLogKey{}).(*fLog)
	return l
}

func (l *fLog) add(kind, name string, t hand) {
	if l == nil {
		return
	}
	l.mu.Lock()
	l.Evs = append(l.Evs, fEvent{kind, name, t})
	l.mu.Unlock()
}

type wrapW struct{ http.ResponseWriter }

func ident(v interface{}) string { return fmt.Sprintf("%T@%p", v, v) }

// c06AttrKeys holds the attribute keys of the configuration under test (set before its requests start).
var c06AttrKeys []string

func attrsOf(req *restful.Request) string {
	var b strings.Builder
	for _, k := range c06AttrKeys {
		if v := req.Attribute(k); v != nil {
			fmt.Fprintf(&b, "%s=%v;", k, v)
		}
	}
	return b.String()
}

func tupleOf(req *restful.Request, resp *restful.Response) hand {
	return hand{Req: fmt.Sprintf("%p", req), Resp: fmt.Sprintf("%p", resp), HReq: fmt.Sprintf("%p", req.Request), Writer: ident(resp.ResponseWriter), Attrs: attrsOf(req)}
}

// filter behaviours
const (
	fPass = iota
	fAttr
	fReplaceReq
	fReplaceResp
	fReplaceHTTP
	fMiddleware
	fSetWriter
	fFreshContext
	fReplaceReqFiltered
	fErrorStatusThenPass
	nBehaviours
)

var behName = []string{"pass", "attr", "replace-request", "replace-response", "replace-http-request", "middleware-adapter", "set-response-writer", "http-request-on-fresh-context", "replace-request-dropping-and-overriding-attributes", "writes-an-error-status-and-passes-control-on"}

func mkFilter(name string, beh int) restful.FilterFunction {
	if beh == fMiddleware {
		return restful.HttpMiddlewareHandlerToFilter(func(next http.Handler) http.Handler {
			return http.HandlerFunc(func(w http.ResponseWriter, r *http.Request) {
				lg := fLogOf(r)
				lg.add("enter", name, hand{HReq: fmt.Sprintf("%p", r), Writer: ident(w)})
				if r.Header.Get("X-Short") == name {
					w.WriteHeader(418)
					lg.add("exit", name, hand{})
					return
				}
				runtime.Gosched()
				w2 := &wrapW{w}
				r2 := r.WithContext(context.WithValue(r.Context(), name, 1))
				lg.add("pass", name, hand{HReq: fmt.Sprintf("%p", r2), Writer: ident(w2)})
				next.ServeHTTP(w2, r2)
				lg.add("exit", name, hand{})
			})
		})
	}
	return func(req *restful.Request, resp *restful.Response, chain *restful.FilterChain) {
		lg := fLogOf(req.Request)
		lg.add("enter", name, tupleOf(req, resp))
		if req.Request.Header.Get("X-Short") == name {
			resp.WriteHeader(418)
			lg.add("exit", name, hand{})
			return
		}
		runtime.Gosched()
		switch beh {
		case fAttr:
			req.SetAttribute("k-"+name, req.Request.Header.Get("X-Req")+name)
		case fReplaceReq:
			nr := restful.NewRequest(req.Request)
			for _, k := range c06AttrKeys {
				if v := req.Attribute(k); v != nil {
					nr.SetAttribute(k, v)
				}
			}
			req = nr
		case fReplaceReqFiltered:
			// passes on a Request of its own making that carries only SOME of the attributes, one of them with another value:
			// what later elements see is that Request, nothing of the one it replaces
			nr := restful.NewRequest(req.Request)
			for i, k := range c06AttrKeys {
				if v := req.Attribute(k); v != nil {
					switch i % 3 {
					case 0:
						nr.SetAttribute(k, v)
					case 1:
						nr.SetAttribute(k, fmt.Sprint(v)+"/overridden-by-"+name)
					}
				}
			}
			req = nr
		case fReplaceResp:
			resp = restful.NewResponse(&wrapW{resp.ResponseWriter})
		case fReplaceHTTP:
			req.Request = req.Request.WithContext(context.WithValue(req.Request.Context(), name, 1))
		case fSetWriter:
			resp.ResponseWriter = &wrapW{resp.ResponseWriter}
		case fErrorStatusThenPass:
			// a maintenance / sunset filter: announces 503 through the Response and deliberately lets the chain go on
			resp.AddHeader("X-Maintenance", name)
			resp.WriteHeader(http.StatusServiceUnavailable)
		case fFreshContext:
			// the http.Request is re-based on a context of the filter's own making (only the harness's log travels along);
			// attributes live in the restful.Request and are untouched by that
			req.Request = req.Request.WithContext(context.WithValue(context.Background(), fLogKey{}, lg))
		}
		lg.add("pass", name, tupleOf(req, resp))
		chain.ProcessFilter(req, resp)
		lg.add("exit", name, hand{})
	}
}

type c06Route struct {
	Path     string
	Filters  []int // behaviours
	Produces string
	Idx      int
	Reuse    bool // built from the RouteBuilder of the route before it (used again with another path and further filters)
}
type c06Svc struct {
	Root    string
	Filters []int
	Routes  []c06Route
}
type c06Config struct {
	LateSvc   bool // service filters are registered AFTER the routes of the service
	LateCont  bool // container filters are registered AFTER the services were added
	Container []int
	Svcs      []c06Svc
	Router    string
	Encoding  bool
}

// names: container filters C<i>, service filters S<svc>_<i>, route filters R<route>_<i> - a filter's name says whose it is.
func names(level string, behs []int) []string {
	out := make([]string, len(behs))
	for i := range behs {
		if level == "C" {
			out[i] = fmt.Sprintf("C%d", i)
		} else {
			out[i] = fmt.Sprintf("%s_%d", level, i)
		}
	}
	return out
}

func buildC06(cfg *c06Config) *restful.Container {
	c := restful.NewContainer()
	if cfg.Router == "jsr311" {
		c.Router(restful.RouterJSR311{})
	}
	c.DoNotRecover(false)
	c.RecoverHandler(func(v interface{}, w http.ResponseWriter) {
		w.WriteHeader(500)
		w.Write([]byte("recovered"))
	})
	if !cfg.LateCont {
		for i, b := range cfg.Container {
			c.Filter(mkFilter(fmt.Sprintf("C%d", i), b))
		}
	}
	c.ServiceErrorHandler(func(err restful.ServiceError, req *restful.Request, resp *restful.Response) {
		fLogOf(req.Request).add("enter", "E", tupleOf(req, resp))
		for h, vs := range err.Header {
			for _, v := range vs {
				resp.Header().Add(h, v)
			}
		}
		resp.WriteErrorString(err.Code, err.Message)
	})
	for si, s := range cfg.Svcs {
		ws := new(restful.WebService).Path(s.Root)
		if !cfg.LateSvc {
			for i, n := range names(fmt.Sprintf("S%d", si), s.Filters) {
				ws.Filter(mkFilter(n, s.Filters[i]))
			}
		}
		var rb *restful.RouteBuilder
		for _, r := range s.Routes {
			if r.Reuse {
				// the builder of the previous route goes on: another path, further filters behind the ones it already carries
				rb.Path(r.Path)
				for i, n := range names(fmt.Sprintf("R%d", r.Idx), r.Filters) {
					rb.Filter(mkFilter(n, r.Filters[i]))
				}
				ws.Route(rb)
				continue
			}
			rb = ws.GET(r.Path).To(func(req *restful.Request, resp *restful.Response) {
				fLogOf(req.Request).add("enter", "H", tupleOf(req, resp))
				if req.Request.Header.Get("X-Panic") == "H" {
					panic("handler panic")
				}
				resp.WriteHeader(200)
				resp.Write([]byte("ok"))
			})
			if r.Produces != "" {
				rb.Produces(r.Produces)
			}
			for i, n := range names(fmt.Sprintf("R%d", r.Idx), r.Filters) {
				rb.Filter(mkFilter(n, r.Filters[i]))
			}
			ws.Route(rb)
		}
		if cfg.LateSvc {
			for i, n := range names(fmt.Sprintf("S%d", si), s.Filters) {
				ws.Filter(mkFilter(n, s.Filters[i]))
			}
		}
		c.Add(ws)
	}
	if cfg.LateCont {
		for i, b := range cfg.Container {
			c.Filter(mkFilter(fmt.Sprintf("C%d", i), b))
		}
	}
	c.HandleWithFilter("/plain/", http.HandlerFunc(func(w http.ResponseWriter, r *http.Request) {
		fLogOf(r).add("enter", "P", hand{HReq: fmt.Sprintf("%p", r), Writer: ident(w)})
		w.WriteHeader(200)
	}))
	return c
}

type c06Req struct {
	Accept string   `json:"accept,omitempty"`
	ID     int      `json:"id"`
	Path   string   `json:"path"`
	Method string   `json:"method"`
	Entry  string   `json:"entry"`
	Short  string   `json:"short,omitempty"`
	Expect []string `json:"expect"` // element names in order, terminal last
	Kind   string   `json:"kind"`
}

// expectedEvents derives the exact (kind,name) sequence the property demands.
func expectedEvents(e []string, short string) [][2]string {
	var out [][2]string
	var entered []string
	for i, n := range e {
		out = append(out, [2]string{"enter", n})
		terminal := i == len(e)-1
		if n == short && !terminal {
			out = append(out, [2]string{"exit", n})
			break
		}
		if terminal {
			break
		}
		out = append(out, [2]string{"pass", n})
		entered = append(entered, n)
	}
	for i := len(entered) - 1; i >= 0; i-- {
		out = append(out, [2]string{"exit", entered[i]})
	}
	return out
}

// checkLog is the offline checker over one request's log.
func checkLog(evs []fEvent, rq *c06Req) (string, string) {
	want := expectedEvents(rq.Expect, rq.Short)
	if rq.Kind == "routed-panic" {
		// the panic unwinds the chain: nobody runs again, nobody exits normally
		var w2 [][2]string
		for _, w := range want {
			if w[0] != "exit" {
				w2 = append(w2, w)
			}
		}
		want = w2
	}
	var got []string
	for _, e := range evs {
		got = append(got, e.Kind+":"+e.Name)
	}
	var ws []string
	for _, w := range want {
		ws = append(ws, w[0]+":"+w[1])
	}
	if strings.Join(got, " ") != strings.Join(ws, " ") {
		// classify
		cnt := map[string]int{}
		for _, e := range evs {
			if e.Kind == "enter" {
				cnt[e.Name]++
			}
		}
		for n, k := range cnt {
			if k > 1 {
				return "twice", fmt.Sprintf("%s ran %d times; log %v, expected %v", n, k, got, ws)
			}
		}
		return "order", fmt.Sprintf("log %v, expected %v", got, ws)
	}
	// hand-over: what element i+1 received is what element i passed on
	var last *hand
	for i := range evs {
		e := &evs[i]
		switch e.Kind {
		case "pass":
			t := e.T
			if last != nil {
				if t.Req == "" {
					t.Req = last.Req
				}
				if t.Resp == "" {
					t.Resp = last.Resp
				}
				if t.Attrs == "" && t.Req == last.Req {
					t.Attrs = last.Attrs
				}
			}
			last = &t
		case "enter":
			if last == nil {
				continue
			}
			r := e.T
			if e.Name == "P" {
				// the plain handler is given the Response itself as writer
				if r.HReq != last.HReq || (last.Resp != "" && !strings.HasSuffix(r.Writer, "@"+last.Resp)) {
					return "handover", fmt.Sprintf("plain handler received (%s,%s), container filters passed on (%s, Response %s)", r.HReq, r.Writer, last.HReq, last.Resp)
				}
				continue
			}
			if r.HReq != last.HReq || r.Writer != last.Writer {
				return "handover", fmt.Sprintf("%s received http pair (%s,%s) but its predecessor passed on (%s,%s)", e.Name, r.HReq, r.Writer, last.HReq, last.Writer)
			}
			if r.Req != "" && last.Req != "" && (r.Req != last.Req || r.Resp != last.Resp) {
				return "handover", fmt.Sprintf("%s received wrappers (%s,%s) but its predecessor passed on (%s,%s)", e.Name, r.Req, r.Resp, last.Req, last.Resp)
			}
			if r.Req != "" && last.Req != "" && r.Attrs != last.Attrs {
				return "attributes", fmt.Sprintf("%s sees attributes %q but its predecessor passed on %q", e.Name, r.Attrs, last.Attrs)
			}
		}
	}
	return "", ""
}

func genBehs(r *core.Rand, max int) []int {
	n := r.Intn(max + 1)
	if r.Chance(1, 25) {
		// long chains: counts just beyond powers of two
		n = []int{9, 17, 33, 65}[r.Intn(4)]
	}
	out := make([]int, n)
	for i := range out {
		if r.Chance(1, 2) {
			out[i] = fPass
		} else {
			out[i] = r.Intn(nBehaviours)
		}
	}
	return out
}

// asyncState is the per-request rendezvous of asyncChain.
type asyncState struct {
	mu       sync.Mutex
	names    []string
	bEntered chan struct{}
	released chan struct{}
	finished chan struct{}
	once     sync.Once
	tw       *discardW // adapter variant: the writer the middleware hands to the next handler
}
type asyncKey struct{}

func (a *asyncState) log(n string) {
	a.mu.Lock()
	a.names = append(a.names, n)
	a.mu.Unlock()
}

type discardW struct {
	h      http.Header
	mu     sync.Mutex
	body   []byte
	status int
}

func (d *discardW) Header() http.Header { return d.h }
func (d *discardW) WriteHeader(s int) {
	d.mu.Lock()
	if d.status == 0 {
		d.status = s
	}
	d.mu.Unlock()
}
func (d *discardW) code() int {
	d.mu.Lock()
	defer d.mu.Unlock()
	return d.status
}
func (d *discardW) Write(b []byte) (int, error) {
	d.mu.Lock()
	d.body = append(d.body, b...)
	d.mu.Unlock()
	return len(b), nil
}
func (d *discardW) text() string {
	d.mu.Lock()
	defer d.mu.Unlock()
	return string(d.body)
}

var asyncBroken int32

// asyncChain: a filter in the style of http.TimeoutHandler - it hands the rest of the chain, with a response of its own, to
// another goroutine, answers 504 itself and returns while the chain below has only reached the next filter. That filter goes on
// only after Dispatch has returned to its caller. Every element still runs exactly once, in order.
//
// adapter=true: the same shape built from a plain net/http middleware (what http.TimeoutHandler is) behind
// HttpMiddlewareHandlerToFilter - the middleware calls the next handler with a writer of its own on another goroutine and
// returns first. The pair the middleware passed on stays the pair the rest of the chain works with: the handler's late output
// must arrive at the middleware's writer, never at the connection that already carries the 504.
func asyncChain(ctx *core.Ctx, ci int, router string, adapter bool) {
	stOf := func(r *http.Request) *asyncState { return r.Context().Value(asyncKey{}).(*asyncState) }
	rec := func(n string) restful.FilterFunction {
		return func(req *restful.Request, resp *restful.Response, chain *restful.FilterChain) {
			stOf(req.Request).log(n)
			chain.ProcessFilter(req, resp)
		}
	}
	c := restful.NewContainer()
	if router == "jsr311" {
		c.Router(restful.RouterJSR311{})
	}
	c.Filter(rec("A"))
	if adapter {
		c.Filter(restful.HttpMiddlewareHandlerToFilter(func(next http.Handler) http.Handler {
			return http.HandlerFunc(func(w http.ResponseWriter, r *http.Request) {
				st := stOf(r)
				st.log("T")
				go func() {
					defer st.once.Do(func() { close(st.finished) })
					defer func() { recover() }()
					next.ServeHTTP(st.tw, r)
				}()
				select {
				case <-st.bEntered:
				case <-time.After(20 * time.Second):
					st.log("T-gave-up-waiting-for-B")
				}
				w.WriteHeader(504)
			})
		}))
	}
	c.Filter(func(req *restful.Request, resp *restful.Response, chain *restful.FilterChain) {
		if adapter {
			chain.ProcessFilter(req, resp)
			return
		}
		st := stOf(req.Request)
		st.log("T")
		inner := restful.NewResponse(&discardW{h: http.Header{}})
		go func() {
			defer st.once.Do(func() { close(st.finished) })
			defer func() { recover() }()
			chain.ProcessFilter(req, inner)
		}()
		select {
		case <-st.bEntered:
		case <-time.After(20 * time.Second):
			st.log("T-gave-up-waiting-for-B") // shows up as a wrong sequence
		}
		resp.WriteHeader(504)
	})
	c.Filter(func(req *restful.Request, resp *restful.Response, chain *restful.FilterChain) {
		st := stOf(req.Request)
		st.log("B")
		select {
		case <-st.bEntered:
		default:
			close(st.bEntered)
		}
		<-st.released // the caller of Dispatch has its answer; only now does the chain below go on
		chain.ProcessFilter(req, resp)
	})
	c.Filter(rec("C"))
	ws := new(restful.WebService).Path("/async").Filter(rec("S"))
	ws.Route(ws.GET("/x").Filter(rec("R")).To(func(req *restful.Request, resp *restful.Response) {
		st := stOf(req.Request)
		st.log("H")
		if adapter && resp.ResponseWriter != http.ResponseWriter(st.tw) {
			st.log("H-holds-" + ident(resp.ResponseWriter))
		}
		resp.Write([]byte("late answer"))
	}))
	c.Add(ws)
	one := func(mode string) {
		if atomic.LoadInt32(&asyncBroken) != 0 {
			return
		}
		st := &asyncState{bEntered: make(chan struct{}), released: make(chan struct{}), finished: make(chan struct{}), tw: &discardW{h: http.Header{}}}
		req := rt.Req{Method: "GET", Path: "/async/x"}
		hr := rt.HTTPRequest(&req, nil)
		hr = hr.WithContext(context.WithValue(context.Background(), asyncKey{}, st))
		// the connection is written by the caller's goroutine only when the library is right: a writer with a lock of its own,
		// so that a late write from the chain's goroutine is a finding of the oracle below, not a race inside the harness
		w := &discardW{h: http.Header{}}
		c.Dispatch(w, hr)
		close(st.released)
		select {
		case <-st.finished:
		case <-time.After(30 * time.Second):
			atomic.StoreInt32(&asyncBroken, 1)
			ctx.Inconclusive("the chain behind an asynchronous filter did not finish")
			return
		}
		ctx.Eval(1)
		ctx.Count("requests_through_an_asynchronous_filter", 1)
		st.mu.Lock()
		got := strings.Join(st.names, " ")
		st.mu.Unlock()
		if adapter {
			ctx.Count("requests_through_an_asynchronous_adapted_middleware", 1)
			mode += ":adapter"
		}
		if adapter && got == "A T B C S R H" && w.code() == 504 && (st.tw.text() != "late answer" || w.text() != "") {
			atomic.StoreInt32(&asyncBroken, 1)
			ctx.Violation(ci, "c06:handover:async-middleware:"+mode, fmt.Sprintf("the handler's output went elsewhere: the writer the middleware passed on holds %q, the connection that carries the 504 holds %q", st.tw.text(), w.text()),
				map[string]interface{}{"router": router, "middleware_writer": st.tw.text(), "connection": w.text()})
			return
		}
		if got != "A T B C S R H" || w.code() != 504 {
			atomic.StoreInt32(&asyncBroken, 1) // one witness is enough; further requests would only wait for their watchdogs
			cls := "order"
			seen := map[string]bool{}
			for _, n := range st.names {
				if seen[n] {
					cls = "twice"
				}
				seen[n] = true
			}
			ctx.Violation(ci, "c06:"+cls+":async-filter:"+mode, fmt.Sprintf("elements ran as [%s] (status %d); each runs once, in the order A T B C S R H, and the filter's own 504 is the answer", got, w.code()),
				map[string]interface{}{"router": router, "ran": st.names, "status": w.code()})
		}
	}
	for i := 0; i < 6; i++ {
		one("sequential")
	}
	var wg sync.WaitGroup
	for g := 0; g < 4; g++ {
		wg.Add(1)
		go func() {
			defer wg.Done()
			for i := 0; i < 3; i++ {
				one("concurrent")
			}
		}()
	}
	wg.Wait()
}

// libraryFilters: the library's own filters (CORS with a restricted origin list, the OPTIONS filter) sit between application
// filters, content encoding is on, and the container is also reached as the plain handler of an outer container that encodes
// as well (its writer is then already a compressing one). Whatever the Origin and Accept-Encoding of a request, every
// application filter and the route function run exactly once, in order.
func libraryFilters(ctx *core.Ctx, ci int, router string) {
	stOf := func(r *http.Request) *asyncState { return r.Context().Value(asyncKey{}).(*asyncState) }
	rec := func(n string) restful.FilterFunction {
		return func(req *restful.Request, resp *restful.Response, chain *restful.FilterChain) {
			stOf(req.Request).log(n)
			chain.ProcessFilter(req, resp)
		}
	}
	inner := restful.NewContainer()
	if router == "jsr311" {
		inner.Router(restful.RouterJSR311{})
	}
	inner.EnableContentEncoding(true)
	cors := restful.CrossOriginResourceSharing{AllowedDomains: []string{"http://allowed.example"}, CookiesAllowed: true, Container: inner}
	inner.Filter(rec("A"))
	inner.Filter(cors.Filter)
	inner.Filter(inner.OPTIONSFilter)
	inner.Filter(rec("B"))
	ws := new(restful.WebService).Path("/lib").Filter(rec("S"))
	ws.Route(ws.GET("/x").Filter(rec("R")).To(func(req *restful.Request, resp *restful.Response) {
		stOf(req.Request).log("H")
		resp.Write([]byte("library filters in between"))
	}))
	inner.Add(ws)
	outer := restful.NewContainer()
	outer.EnableContentEncoding(true)
	outer.Handle("/", inner)
	for _, entry := range []string{"Dispatch", "ServeHTTP", "outer container"} {
		for _, origin := range []string{"", "http://allowed.example", "http://evil.example", "null"} {
			for _, ae := range []string{"", "gzip", "deflate"} {
				st := &asyncState{}
				req := rt.Req{Method: "GET", Path: "/lib/x", Hdr: map[string]string{}}
				if origin != "" {
					req.Hdr["Origin"] = origin
				}
				if ae != "" {
					req.Hdr["Accept-Encoding"] = ae
				}
				hr := rt.HTTPRequest(&req, nil)
				hr = hr.WithContext(context.WithValue(context.Background(), asyncKey{}, st))
				w := rt.NewRec()
				switch entry {
				case "Dispatch":
					inner.Dispatch(w, hr)
				case "ServeHTTP":
					inner.ServeHTTP(w, hr)
				default:
					outer.ServeHTTP(w, hr)
				}
				ctx.Eval(1)
				ctx.Count("requests_through_library_filters", 1)
				st.mu.Lock()
				got := strings.Join(st.names, " ")
				st.mu.Unlock()
				if got != "A B S R H" || w.Code() != 200 {
					cls := "order"
					if strings.Count(got, "H") > 1 || strings.Count(got, "A") > 1 {
						cls = "twice"
					}
					ctx.Violation(ci, "c06:"+cls+":library-filters:"+strings.ReplaceAll(entry, " ", "-"), fmt.Sprintf("GET /lib/x via %s, Origin %q, Accept-Encoding %q: application filters and route function ran as [%s] (status %d); each runs once, in the order A B S R H", entry, origin, ae, got, w.Code()),
						map[string]interface{}{"router": router, "entry": entry, "origin": origin, "accept_encoding": ae, "ran": st.names, "status": w.Code()})
					return
				}
			}
		}
	}
	ctx.Sig("library-filters|" + router)
}

func c06(ctx *core.Ctx) {
	quietLogs()
	ctx.Rule("generated configurations: 0-5 container filters (now and then 9, 17, 33 or 65 at a level), two WebServices with 0-3 service filters, two routes and a pair of representation twins (same method and path, JSON vs XML) with 0-3 route filters each, now and then two routes built from one reused RouteBuilder (the second inherits the first one's filters), every filter named after its owner, behaviour per filter in {pass, set attribute, replace Request (all attributes copied, or some dropped and one overridden), replace Response, replace http.Request (derived or on a fresh context), HttpMiddlewareHandlerToFilter around a wrapping middleware, set ResponseWriter, write an error status through the Response and pass control on all the same}; any filter short-circuits on demand of the request; service / container filters registered before or after the routes / services; handlers that panic (recovery on: nothing in the chain may run a second time). 40-request sequences (routed, 404 and 405 routing failures with POST/HEAD/PUT/DELETE/PATCH, HandleWithFilter) run sequentially on one container and then from 16 (every 5th configuration: 70) goroutines (race detector on). Every fifth configuration also runs a fixed chain with the library's own CORS (restricted origins) and OPTIONS filters between application filters, content encoding on, reached through Dispatch, ServeHTTP and as the plain handler of an outer encoding container, for every Origin / Accept-Encoding combination. Every fifth configuration also runs a fixed chain with a filter in the style of http.TimeoutHandler (hands the chain below, with a response of its own, to another goroutine, answers 504 and returns early): every element still runs once, in order. Offline checker per request: exact enter/pass/exit sequence = prefix of [container.., service.., route.., handler] with reversed exits, each once, hand-over identity of (Request, Response, http.Request, writer, attributes). Non-trivial = a request whose chain has >= 2 elements; distinct by (filter counts per level, short-circuit position, request kind, behaviours on the path).")
	ctx.Assume("a filter that replaces the Request copies the attributes it knows about (the API offers no enumeration)")
	configs := ctx.N(250, 20000)
	for ci := 0; ci < configs; ci++ {
		if ctx.Skip(ci) {
			continue
		}
		if ci%10 == 2 || ci%10 == 7 {
			libraryFilters(ctx, ci, routerOf(ci))
		}
		if ci%10 == 4 || ci%10 == 9 {
			asyncChain(ctx, ci, routerOf(ci), ci%20 >= 10)
		}
		r := ctx.Rand(ci, "cfg")
		cfg := &c06Config{Router: routerOf(ci), Container: genBehs(r, 5), LateSvc: r.Chance(1, 3), LateCont: r.Chance(1, 3)}
		ridx := 0
		for si := 0; si < 2; si++ {
			s := c06Svc{Root: fmt.Sprintf("/f%d", si), Filters: genBehs(r, 3)}
			for ri := 0; ri < 2; ri++ {
				s.Routes = append(s.Routes, c06Route{Path: fmt.Sprintf("/r%d", ri), Filters: genBehs(r, 3), Idx: ridx})
				ridx++
			}
			// representation twins: same method and path, other Produces, other route filters
			for _, m := range []string{restful.MIME_JSON, restful.MIME_XML} {
				s.Routes = append(s.Routes, c06Route{Path: "/tw", Filters: genBehs(r, 3), Produces: m, Idx: ridx})
				ridx++
			}
			if r.Chance(1, 3) {
				// a RouteBuilder used for two routes: the second inherits the filters of the first and adds its own
				s.Routes = append(s.Routes, c06Route{Path: "/ru", Filters: genBehs(r, 3), Idx: ridx}, c06Route{Path: "/ru2", Filters: genBehs(r, 3), Idx: ridx + 1, Reuse: true})
				ridx += 2
			}
			cfg.Svcs = append(cfg.Svcs, s)
		}
		ctx.Case(ci, core.JSON(cfg))
		c := buildC06(cfg)
		cn := names("C", cfg.Container)
		c06AttrKeys = nil
		for _, n := range cn {
			c06AttrKeys = append(c06AttrKeys, "k-"+n)
		}
		for si, s := range cfg.Svcs {
			for _, n := range names(fmt.Sprintf("S%d", si), s.Filters) {
				c06AttrKeys = append(c06AttrKeys, "k-"+n)
			}
			for _, rr := range s.Routes {
				for _, n := range names(fmt.Sprintf("R%d", rr.Idx), rr.Filters) {
					c06AttrKeys = append(c06AttrKeys, "k-"+n)
				}
			}
		}
		// request list
		var reqs []c06Req
		nreq := 40
		for q := 0; q < nreq; q++ {
			rq := c06Req{ID: q, Method: "GET", Entry: rt.Dispatch}
			if q%2 == 1 {
				rq.Entry = rt.ServeHTTP
			}
			var chain []string
			switch k := r.Intn(10); {
			case k < 6:
				si := r.Intn(2)
				s := cfg.Svcs[si]
				ri := r.Intn(len(s.Routes))
				rq.Path = fmt.Sprintf("%s%s", s.Root, s.Routes[ri].Path)
				rq.Kind = "routed"
				if s.Routes[ri].Produces != "" {
					rq.Kind = "routed-twin"
					rq.Accept = s.Routes[ri].Produces
				}
				chain = append(append([]string{}, cn...), names(fmt.Sprintf("S%d", si), s.Filters)...)
				if s.Routes[ri].Reuse {
					chain = append(chain, names(fmt.Sprintf("R%d", s.Routes[ri-1].Idx), s.Routes[ri-1].Filters)...)
					ctx.Count("requests_to_routes_of_a_reused_builder", 1)
				}
				chain = append(chain, names(fmt.Sprintf("R%d", s.Routes[ri].Idx), s.Routes[ri].Filters)...)
				rq.Expect = append(append([]string{}, chain...), "H")
			case k < 7:
				rq.Path = fmt.Sprintf("/f%d/nope", r.Intn(2))
				rq.Kind = "404-route"
				chain = cn
				rq.Expect = append(append([]string{}, chain...), "E")
			case k < 8:
				rq.Path = "/zzz/y"
				rq.Kind = "404-service"
				rq.Entry = rt.Dispatch
				chain = cn
				rq.Expect = append(append([]string{}, chain...), "E")
			case k < 9:
				rq.Path = fmt.Sprintf("/f%d/r%d", r.Intn(2), r.Intn(2))
				rq.Method = r.Pick([]string{"POST", "HEAD", "PUT", "DELETE", "PATCH"})
				rq.Kind = "405"
				chain = cn
				rq.Expect = append(append([]string{}, chain...), "E")
			default:
				rq.Path = "/plain/x"
				rq.Kind = "handle-with-filter"
				rq.Entry = rt.ServeHTTP
				chain = cn
				rq.Expect = append(append([]string{}, chain...), "P")
			}
			if len(chain) > 0 && r.Chance(1, 4) {
				rq.Short = chain[r.Intn(len(chain))]
			} else if (rq.Kind == "routed" || rq.Kind == "routed-twin") && r.Chance(1, 6) {
				rq.Kind = "routed-panic" // the handler panics; recovery is on
			}
			reqs = append(reqs, rq)
		}
		run := func(rq *c06Req, mode string) {
			lg := &fLog{}
			req := rt.Req{Method: rq.Method, Path: rq.Path, Hdr: map[string]string{"X-Req": fmt.Sprint(rq.ID)}}
			if rq.Short != "" {
				req.Hdr["X-Short"] = rq.Short
			}
			if rq.Accept != "" {
				req.HasAcc, req.Accept = true, rq.Accept
			}
			if rq.Kind == "routed-panic" {
				req.Hdr["X-Panic"] = "H"
			}
			hr := rt.HTTPRequest(&req, nil)
			cctx := context.WithValue(context.Background(), fLogKey{}, lg)
			if rq.ID%7 == 3 {
				// the client went away: the chain runs all the same (what to do about it is the application's business)
				var cancel context.CancelFunc
				cctx, cancel = context.WithCancel(cctx)
				cancel()
			}
			hr = hr.WithContext(cctx)
			rec := rt.NewRec()
			var pan interface{}
			func() {
				defer func() { pan = recover() }()
				if rq.Entry == rt.ServeHTTP {
					c.ServeHTTP(rec, hr)
				} else {
					c.Dispatch(rec, hr)
				}
			}()
			ctx.Eval(1)
			doc := map[string]interface{}{"config": cfg, "request": rq, "mode": mode, "log": lg.Evs, "status": rec.Code()}
			if pan != nil {
				ctx.Violation(ci, "c06:panic", fmt.Sprintf("panic in chain: %v", pan), doc)
				return
			}
			lg.mu.Lock()
			evs := append([]fEvent{}, lg.Evs...)
			lg.mu.Unlock()
			if cls, msg := checkLog(evs, rq); cls != "" {
				ctx.Violation(ci, "c06:"+cls+":"+rq.Kind+":"+mode, fmt.Sprintf("%s %s (%s, short=%q): %s", rq.Method, rq.Path, rq.Kind, rq.Short, msg), doc)
				return
			}
			wantStatus := 200
			if rq.Short != "" {
				wantStatus = 418
			} else if rq.Kind == "404-route" || rq.Kind == "404-service" {
				wantStatus = 404
			} else if rq.Kind == "405" {
				wantStatus = 405
			} else if rq.Kind == "routed-panic" {
				wantStatus = 500
			}
			if len(rec.Hdr()["X-Maintenance"]) > 0 {
				// a filter on the path announced 503 before anybody else had set a status (its header is part of the head that went out)
				wantStatus = http.StatusServiceUnavailable
			}
			if rec.Code() != wantStatus {
				ctx.Violation(ci, "c06:status:"+rq.Kind, fmt.Sprintf("status %d, expected %d", rec.Code(), wantStatus), doc)
			}
			if len(rq.Expect) >= 2 {
				var behs []string
				_ = behs
				ctx.Sig(fmt.Sprintf("%d|%s|short=%s|n=%d", len(cfg.Container), rq.Kind, levelOf(rq.Short), len(rq.Expect)))
				ctx.Count("chains_checked", 1)
				ctx.Count("chain_elements_checked", len(evs))
			}
			if ctx.WantSample() && len(rq.Expect) > 4 {
				ctx.Sample(map[string]interface{}{"request": rq, "log_names": logNames(evs), "mode": mode})
			}
		}
		for i := range reqs {
			run(&reqs[i], "sequential")
		}
		// the same list with trace logging on (tracing only logs)
		restful.EnableTracing(true)
		for i := range reqs {
			if i%2 == 0 {
				run(&reqs[i], "trace-on")
			}
		}
		restful.EnableTracing(false)
		// the same list from 16 goroutines
		var wg sync.WaitGroup
		start := make(chan struct{})
		workers := 16
		if ci%10 == 3 || ci%10 == 8 {
			workers = 70
		}
		for g := 0; g < workers; g++ {
			wg.Add(1)
			go func(g int) {
				defer wg.Done()
				<-start
				for i := g % 4; i < len(reqs); i += 4 {
					rq := reqs[i]
					run(&rq, "concurrent")
				}
			}(g)
		}
		close(start)
		wg.Wait()
		ctx.Count("concurrent_requests", workers*len(reqs)/4)
		for _, b := range cfg.Container {
			ctx.SetAdd("behaviours_seen", behName[b])
		}
	}
}

func levelOf(short string) string {
	if short == "" {
		return "-"
	}
	return short[:1]
}

func logNames(evs []fEvent) []string {
	out := make([]string, len(evs))
	for i, e := range evs {
		out[i] = e.Kind + ":" + e.Name
	}
	return out
}
