package props

import (
	"bytes"
	"compress/gzip"
	"context"
	"encoding/json"
	"fmt"
	"net/http"
	"os"
	"os/exec"
	"runtime"
	"strconv"
	"strings"
	"sync"
	"sync/atomic"
	"time"

	restful "github.com/emicklei/go-restful/v3"

	"verifharness/core"
	"verifharness/rt"
)

func init() { register("C19", c19) }

type c19Config struct {
	Router      string   `json:"router"`
	Entry       string   `json:"entry"`
	Encoding    bool     `json:"encoding"`
	CORS        bool     `json:"cors"`
	CORSMethods []string `json:"cors_allowed_methods,omitempty"`
	Options     bool     `json:"options_filter"`
	Extra       int      `json:"extra_container_filters"`
	Entity      bool     `json:"handlers_write_entities"`
	Adapter     bool     `json:"adapted_middleware_filter"`
	Provider    string   `json:"compressor_provider"` // syncpool | bounded1 (a cache that is empty most of the time under concurrency)
}

// mk builds a fresh container for the configuration.
func (cf *c19Config) mk(t *rt.Table) *restful.Container {
	bo := rt.DefaultBuild(cf.Router)
	bo.SelFilters = true
	bo.Entity = cf.Entity
	bo.ReadBody = true
	// container filters are registered before Build's own recording filter would be: build by hand
	c := restful.NewContainer()
	if cf.Router == "jsr311" {
		c.Router(restful.RouterJSR311{})
	}
	c.EnableContentEncoding(cf.Encoding)
	// each request's filter writes its own id as an attribute
	c.Filter(func(req *restful.Request, resp *restful.Response, chain *restful.FilterChain) {
		id := req.Request.Header.Get("X-Req")
		if prev := req.Attribute("req-id"); prev != nil {
			resp.AddHeader("X-Attr-Leak", fmt.Sprint(prev))
		}
		req.SetAttribute("req-id", id)
		// application code may also write into the parameter map it is handed; what it writes belongs to this request
		if pp := req.PathParameters(); pp != nil {
			pp["x-req-"+id] = "1"
		}
		resp.AddHeader("X-Req-Echo", id)
		chain.ProcessFilter(req, resp)
	})
	if cf.CORS {
		cors := restful.CrossOriginResourceSharing{AllowedDomains: []string{"http://example.com"}, AllowedHeaders: []string{"Content-Type", "X-Custom"}, AllowedMethods: cf.CORSMethods,
			CookiesAllowed: true, ExposeHeaders: []string{"X-Rid"}, MaxAge: 60, Container: c}
		c.Filter(cors.Filter)
	}
	if cf.Options {
		c.Filter(c.OPTIONSFilter)
	}
	for i := 0; i < cf.Extra; i++ {
		c.Filter(rt.SelFilter(fmt.Sprintf("extra:%d", i)))
	}
	if cf.Adapter {
		// a net/http middleware adapted into the chain; it dwells a moment before handing on
		c.Filter(restful.HttpMiddlewareHandlerToFilter(func(next http.Handler) http.Handler {
			return http.HandlerFunc(func(w http.ResponseWriter, r *http.Request) {
				runtime.Gosched()
				next.ServeHTTP(w, r)
			})
		}))
	}
	c.Filter(rt.SelFilter("container"))
	for i := range t.Svcs {
		c.Add(rt.NewService(&t.Svcs[i], nil, bo, i))
	}
	// an echo route: reads the (possibly gzip-encoded) entity and writes it back
	echo := new(restful.WebService).Path("/echo19")
	echo.Route(echo.POST("/").To(func(req *restful.Request, resp *restful.Response) {
		var v map[string]interface{}
		if err := req.ReadEntity(&v); err != nil {
			resp.WriteErrorString(400, "read-error")
			return
		}
		resp.WriteHeader(200)
		fmt.Fprintf(resp, "echo:%v", v["id"])
	}))
	c.Add(echo)
	// a plain handler behind the container filters (reachable through ServeHTTP)
	c.HandleWithFilter("/hwf/", http.HandlerFunc(func(w http.ResponseWriter, r *http.Request) {
		w.WriteHeader(200)
		w.Write([]byte("plain:" + r.URL.Path + ":" + r.Header.Get("X-Req")))
	}))
	return c
}

// c19Sig is everything the property lists: status, headers, decoded body, handler-side observations.
func c19Sig(o *rt.Outcome) string {
	var b strings.Builder
	if o.Panicked {
		fmt.Fprintf(&b, "panic(%s) ", o.Panic)
	}
	h := o.Rec.Hdr()
	body := o.Rec.Body.Bytes()
	if ce := h.Get("Content-Encoding"); ce == "gzip" || ce == "deflate" {
		if dec, err := decodeComplete(ce, body); err == nil {
			body = dec
		} else {
			fmt.Fprintf(&b, "undecodable(%v) ", err)
		}
	}
	fmt.Fprintf(&b, "status=%d hdr[%s] body=%q", o.Status, headerSig(h), body)
	if len(o.Rec.Flushes) > 0 {
		fmt.Fprintf(&b, " flushed-at=%v", o.Rec.Flushes)
	}
	for _, iv := range o.Obs.Invokes {
		fmt.Fprintf(&b, " invoke(rid=%d params=%v sel=%d %s %s body=%q)", iv.RID, sortedParams(iv.Params), iv.SelRID, iv.SelMethod, iv.SelPath, iv.Body)
	}
	for _, se := range o.Obs.Sels {
		fmt.Fprintf(&b, " filter(%s rid=%d attr=%s)", se.Where, se.RID, se.Attr)
	}
	return b.String()
}

func c19(ctx *core.Ctx) {
	quietLogs()
	ctx.Rule("generated configurations (route table on the router's full template fragment, recording filters at all three levels labelled with their route/service, a filter writing a per-request attribute and a per-request key into PathParameters(), a HandleWithFilter handler, handlers that read the raw request body, an echo route reading gzip-encoded entities that arrive in small slices, 0-5 extra container filters, CORS filter with configured or computed methods, OPTIONS filter, content encoding with the sync.Pool or a bounded(1,1) compressor provider, handlers writing raw bytes or negotiated entities, streaming handlers that Flush their first chunk, handlers switching PrettyPrint off for their own entity; both routers; Dispatch or ServeHTTP). For each request of a multiset of 40 (hits, near misses, adversarial, a parameter-less resource in two representations each way asked for with matching and non-matching media headers, malformed Accept, CORS actual and preflight requests for different URLs, Accept-Encoding) the reference is the answer of a FRESH container to that request alone through the same entry point; for every 5th (thorough: 25th) configuration the fresh-container answers are also computed by two further PROCESSES of this binary that serve the multiset in reverse and in shuffled order, and must be the same (state left behind in package-level variables would otherwise pollute reference and history alike). Before anything else a cold-start burst: 16 clients send the same request at once as the first requests through a route whose expressions the process has never used. Then (a) a 200-request sequential history in random order with repetitions, every 5th step preceded by the same request from a client whose connection fails on every body write, (b) batches released together from 16 (now and then 70) goroutines, (c) the sequential history again with trace logging on: status, all headers, decoded body, path parameters, selected route and attributes seen by every filter/handler must equal the reference. Race detector on. Non-trivial = a compared response of a request that ran at least one filter or handler; distinct by (configuration shape, phase, outcome class).")
	ctx.Assume("the reference is per (request, entry point): ServeHTTP answers unregistered prefixes from net/http's mux")
	defer setTracing(false, 0)
	defer restful.SetCompressorProvider(restful.NewSyncPoolCompessors())
	configs := ctx.N(50, 1500)
	// child mode (see firstInAnotherProcess): this process only computes the fresh-container answers of ONE configuration,
	// in the order it is told, and exits
	childCi, childOrder, childOut := -1, "", ""
	if spec := strings.SplitN(os.Getenv("VERIF_C19_CHILD"), ":", 3); len(spec) == 3 {
		childCi, _ = strconv.Atoi(spec[0])
		childOrder, childOut = spec[1], spec[2]
	}
	for ci := 0; ci < configs; ci++ {
		if childCi >= 0 && ci != childCi {
			continue
		}
		if childCi < 0 && ctx.Skip(ci) {
			continue
		}
		r := ctx.Rand(ci, "cfg")
		cf := &c19Config{Router: routerOf(ci), Entry: rt.Dispatch, Encoding: r.Chance(1, 2), CORS: r.Chance(2, 3), Options: r.Chance(1, 3), Extra: r.Intn(6), Entity: r.Chance(1, 2), Adapter: r.Chance(1, 3)}
		if ci%4 >= 2 {
			cf.Entry = rt.ServeHTTP
		}
		if cf.CORS && r.Chance(1, 2) {
			cf.CORSMethods = []string{"GET", "POST"}
		}
		cf.Provider = "syncpool"
		if ci%5 == 2 || ci%5 == 4 {
			cf.Provider = "bounded1"
			restful.SetCompressorProvider(restful.NewBoundedCachedCompressors(1, 1))
		} else {
			restful.SetCompressorProvider(restful.NewSyncPoolCompessors())
		}
		if childCi < 0 {
			coldBurst(ctx, ci, cf.Router)
		}
		o := fullGenOpts(cf.Router)
		o.StarMedia = false
		t := rt.GenTable(r, o)
		// a resource on a parameter-less path in two representations each way: the same method and path select another
		// route, or none, depending on the media headers alone
		{
			lit := rt.SvcSpec{ID: len(t.Svcs), Root: rt.Tmpl{{Kind: rt.Lit, Lit: "lit19"}}}
			id0 := 9000
			doc := rt.Tmpl{{Kind: rt.Lit, Lit: "doc"}}
			lit.Routes = []rt.RouteSpec{
				{ID: id0, Method: "GET", Path: doc, Produces: []string{restful.MIME_JSON}},
				{ID: id0 + 1, Method: "GET", Path: doc, Produces: []string{restful.MIME_XML}},
				{ID: id0 + 2, Method: "POST", Path: doc, Consumes: []string{restful.MIME_JSON}},
				{ID: id0 + 3, Method: "POST", Path: doc, Consumes: []string{restful.MIME_XML}},
			}
			t.Svcs = append(t.Svcs, lit)
		}
		// one route that can negotiate between two registered representations
		neg := &t.Svcs[0].Routes[0]
		neg.Method, neg.Produces, neg.Consumes, neg.Conds, neg.NoCT = "GET", []string{restful.MIME_JSON, restful.MIME_XML}, nil, nil, nil
		// its own content-encoding setting is the opposite of the container's
		neg.Enc = 1
		if cf.Encoding {
			neg.Enc = 2
		}
		// and one that produces a single representation (whatever the Accept header looks like, the answer must be one and the same)
		lastSvc := &t.Svcs[len(t.Svcs)-2]
		neg1 := &lastSvc.Routes[len(lastSvc.Routes)-1]
		if neg1 != neg {
			neg1.Method, neg1.Produces, neg1.Consumes, neg1.Conds, neg1.NoCT = "GET", []string{restful.MIME_XML}, nil, nil, nil
		}
		t.Fill()
		ctx.Case(ci, core.JSON(cf)+" table="+core.JSON(t))
		// the multiset
		var reqs []rt.Req
		for q := 0; q < 40; q++ {
			req := rt.GenReq(r, t, cf.Router)
			if cf.Entry == rt.ServeHTTP {
				if _, clean := rt.Tokens(req.Path); !clean {
					req.Path = "/" + r.Pick(rt.Literals)
				}
			}
			if req.Hdr == nil {
				req.Hdr = map[string]string{}
			}
			switch q % 8 {
			case 1:
				req.Hdr["Origin"] = "http://example.com"
			case 2:
				req.Hdr["Origin"] = "http://example.com"
				req.Hdr["Access-Control-Request-Method"] = r.Pick([]string{"GET", "POST", "PUT", "DELETE"})
				req.Method = "OPTIONS"
			case 3:
				req.Hdr["Origin"] = "http://evil.com"
			case 4:
				req.Method = "OPTIONS"
			case 0:
				if q == 8 || q == 24 {
					// a form post whose handler reads the raw body itself
					for si := range t.Svcs {
						for ri := range t.Svcs[si].Routes {
							rs := &t.Svcs[si].Routes[ri]
							if len(rs.Consumes) == 0 && len(rs.Conds) == 0 && (rs.Method == "POST" || rs.Method == "PUT") {
								req = rt.HitReq(r, &t.Svcs[si], rs)
								req.HasCT, req.CT = true, "application/x-www-form-urlencoded"
								req.Body = []byte(fmt.Sprintf("name=v%d&x=1", q))
								req.BodyLen, req.BodyStr = len(req.Body), string(req.Body)
							}
						}
					}
				} else if q == 16 || q == 32 {
					// a gzip-encoded JSON entity for the echo route, arriving slowly
					var zb bytes.Buffer
					zw := gzip.NewWriter(&zb)
					fmt.Fprintf(zw, `{"id": %d, "pad": "%s"}`, ci*100+q, strings.Repeat("p", 300))
					zw.Close()
					req = rt.Req{Method: "POST", Path: "/echo19/", HasCT: true, CT: "application/json", Hdr: map[string]string{"Content-Encoding": "gzip"}, Body: zb.Bytes(), BodyLen: zb.Len(), Slow: true, Class: "gzip-echo"}
				}
			case 7:
				if neg1 != neg {
					// several registered types inside one Accept value, some behind malformed q-values
					req = rt.HitReq(r, lastSvc, neg1)
					req.HasAcc = true
					req.Accept = r.Pick([]string{"application/xml;q=x,application/json", "application/json;q=high, application/xml;q=y", "application/xml;q=,application/json;q=",
						"application/json;q=a, application/xml;q=b, text/plain"})
				}
			case 6:
				if cf.Entry == rt.ServeHTTP {
					req = rt.Req{Method: "GET", Path: "/hwf/" + r.Pick(rt.Literals), Hdr: map[string]string{}, Class: "handle-with-filter"}
				}
			case 5:
				// negotiation with an Accept header the framework has to cope with (well-formed and malformed q-values)
				req = rt.HitReq(r, &t.Svcs[0], neg)
				req.HasAcc = true
				req.Accept = r.Pick([]string{"application/json;q=high, application/xml;q=0.5", "application/xml;q=x,application/json;q=0.3", "application/xml;q=0.2, application/json;q=0.9",
					"application/json;q=, application/xml", "*/*;q=abc, application/xml;q=0.1", "application/xml, application/json"})
			}
			if r.Chance(1, 3) {
				req.Hdr["Accept-Encoding"] = r.Pick([]string{"gzip", "deflate", "gzip, deflate"})
			}
			// handlers that use per-response facilities: a streaming handler flushing its first chunk, a handler that
			// switches pretty printing off for its own entity
			switch {
			case q%10 == 9:
				req.Hdr["X-Do"] = "flush"
			case q == 33 || q == 38:
				req = rt.HitReq(r, &t.Svcs[0], neg)
				if req.Hdr == nil {
					req.Hdr = map[string]string{}
				}
				req.HasAcc, req.Accept = true, r.Pick([]string{restful.MIME_JSON, restful.MIME_XML})
				req.Hdr["X-Do"] = "pretty-off"
			}
			if q == 12 || q == 28 {
				// the echo route again, but the body is not what Content-Encoding says (a client bug): whatever the answer is,
				// it is the same every time and the well-formed uploads before, after and next to it are read as sent
				plain := fmt.Sprintf(`{"id": %d, "pad": "not compressed at all"}`, ci*100+q)
				req = rt.Req{Method: "POST", Path: "/echo19/", HasCT: true, CT: "application/json", Hdr: map[string]string{"Content-Encoding": "gzip"}, Body: []byte(plain), BodyLen: len(plain), Slow: q == 28, Class: "gzip-echo-broken"}
			}
			switch q {
			case 11, 13, 21:
				req = rt.Req{Method: "GET", Path: "/lit19/doc", HasAcc: true, Accept: map[int]string{11: restful.MIME_JSON, 13: restful.MIME_XML, 21: "text/plain"}[q], Hdr: map[string]string{}, Class: "literal-twins"}
			case 29, 35, 37:
				req = rt.Req{Method: "POST", Path: "/lit19/doc", HasCT: true, CT: map[int]string{29: restful.MIME_JSON, 35: restful.MIME_XML, 37: "text/plain"}[q], BodyLen: 4, Hdr: map[string]string{}, Class: "literal-twins"}
			}
			if q == 19 || q == 27 || q == 34 {
				// a route that declares no Produces, asked with Accept values that agree up to the first ';' and name another
				// registered type behind it (nothing producible matches: the writer is found by looking into the whole value)
			search:
				for si := range t.Svcs {
					for ri := range t.Svcs[si].Routes {
						rs := &t.Svcs[si].Routes[ri]
						if len(rs.Produces) == 0 && len(rs.Conds) == 0 && rs.Method == "GET" {
							req = rt.HitReq(r, &t.Svcs[si], rs)
							if req.Hdr == nil {
								req.Hdr = map[string]string{}
							}
							req.HasAcc = true
							req.Accept = map[int]string{19: "text/html;q=0.9, application/json, */*;q=0.1", 27: "text/html;q=0.8, application/xml, */*;q=0.1", 34: "text/html;q=0.9, application/xml;q=0.9"}[q]
							req.Class = "no-produces-negotiation"
							break search
						}
					}
				}
			}
			req.Hdr["X-Req"] = fmt.Sprintf("q%d", q)
			reqs = append(reqs, req)
		}
		// reference: a fresh container per request
		refs := make([]string, len(reqs))
		setTracing(false, ci/2)
		if childCi >= 0 {
			sigs := map[int]string{}
			for _, i := range orderOf(childOrder, len(reqs), ctx.Seed+uint64(ci)) {
				sigs[i] = c19Sig(rt.Run(cf.mk(t), cf.Entry, &reqs[i]))
			}
			b, _ := json.Marshal(sigs)
			if err := os.WriteFile(childOut, b, 0o644); err != nil {
				os.Exit(3)
			}
			os.Exit(0)
		}
		for i := range reqs {
			fresh := cf.mk(t)
			refs[i] = c19Sig(rt.Run(fresh, cf.Entry, &reqs[i]))
			ctx.Eval(1)
		}
		if ci%c19ChildEvery(ctx) == 0 && ctx.OnlyCase < 0 || ctx.OnlyCase == ci {
			firstInAnotherProcess(ctx, ci, cf, t, reqs, refs)
		}
		c := cf.mk(t)
		shape := fmt.Sprintf("%s|%s|enc=%v|cors=%v/%d|opt=%v|extra=%d|entity=%v|adapter=%v", cf.Router, cf.Entry, cf.Encoding, cf.CORS, len(cf.CORSMethods), cf.Options, cf.Extra, cf.Entity, cf.Adapter)
		compare := func(i int, out *rt.Outcome, phase string) {
			ctx.Eval(1)
			got := c19Sig(out)
			if len(out.Obs.Sels) > 0 || len(out.Obs.Invokes) > 0 {
				ctx.Sig(fmt.Sprintf("%s|%s|%s", shape, phase, out.Class()))
				ctx.Count("responses_compared_"+phase, 1)
			}
			if got != refs[i] {
				cls := "differs"
				if strings.Contains(got, "X-Attr-Leak") || attrForeign(out, reqs[i].Hdr["X-Req"]) {
					cls = "attribute-leak"
				}
				ctx.Violation(ci, "c19:"+cls+":"+phase+":"+cf.Entry, fmt.Sprintf("%s %q (X-Req %s) in phase %s: %s; a fresh container answers: %s", reqs[i].Method, reqs[i].Path, reqs[i].Hdr["X-Req"], phase, clip(got, 700), clip(refs[i], 700)),
					map[string]interface{}{"config": cf, "table": t, "request": reqs[i], "phase": phase, "observed": got, "reference": refs[i]})
			}
		}
		// (a) sequential history, random order with repetitions
		nh := 200
		if ci%32 == 5 || ci%32 == 12 {
			nh = 3000 // a long-lived container: the thousandth request is answered like the first
			ctx.Count("long_histories", 1)
		}
		hist := make([]int, nh)
		for k := range hist {
			hist[k] = r.Intn(len(reqs))
		}
		for step, i := range hist {
			if step%5 == 4 {
				// the same request from a client that went away: every body write fails. What the framework does with
				// that response is not compared; what it answers afterwards is.
				lost := rt.NewRec()
				lost.FailBody = true
				rt.RunRec(c, cf.Entry, &reqs[i], lost)
				ctx.Count("requests_with_failing_writer", 1)
			}
			compare(i, rt.Run(c, cf.Entry, &reqs[i]), "sequential")
		}
		// (b) concurrent batches
		workers := 16
		if ci%16 == 3 || ci%16 == 10 {
			workers = 70 // more requests at the same moment than any power-of-two sized structure up to 64 holds
			ctx.Count("wide_concurrent_batches", 1)
		}
		for batch := 0; batch < 2; batch++ {
			var wg sync.WaitGroup
			var ready, gate int32
			for g := 0; g < workers; g++ {
				wg.Add(1)
				go func(g int) {
					defer wg.Done()
					atomic.AddInt32(&ready, 1)
					for atomic.LoadInt32(&gate) == 0 {
						runtime.Gosched()
					}
					for k := 0; k < 24; k++ {
						i := (g*7 + k*3 + batch) % len(reqs)
						compare(i, rt.Run(c, cf.Entry, &reqs[i]), "concurrent")
					}
				}(g)
			}
			for atomic.LoadInt32(&ready) < int32(workers) {
				runtime.Gosched()
			}
			atomic.StoreInt32(&gate, 1)
			wg.Wait()
		}
		// (c) trace logging on
		before := atomic.LoadInt64(&tap.n)
		setTracing(true, ci/2)
		for _, i := range hist[:80] {
			compare(i, rt.Run(c, cf.Entry, &reqs[i]), "trace-on")
		}
		setTracing(false, ci/2)
		ctx.Count("trace_lines", int(atomic.LoadInt64(&tap.n)-before))
		// and once more sequentially after the concurrent phase (nothing may have stuck)
		for _, i := range hist[:40] {
			compare(i, rt.Run(c, cf.Entry, &reqs[i]), "after-concurrency")
		}
		if ctx.WantSample() {
			ctx.Sample(map[string]interface{}{"config": cf, "first_request": reqs[0], "reference_answer": clip(refs[0], 300)})
		}
	}
}

func c19ChildEvery(ctx *core.Ctx) int {
	if ctx.Quick() {
		return 5
	}
	return 25
}

func orderOf(order string, n int, seed uint64) []int {
	idx := make([]int, n)
	for i := range idx {
		idx[i] = i
	}
	switch order {
	case "reverse":
		for i := range idx {
			idx[i] = n - 1 - i
		}
	case "shuffle":
		idx = core.NewRand(seed*0x9e3779b97f4a7c15 + 77).Perm(n)
	}
	return idx
}

// firstInAnotherProcess: state that a request leaves behind in package-level variables of the library reaches the fresh
// reference containers of THIS process as well - reference and history would agree on the polluted answer. Two further
// processes (this binary, child mode) therefore compute the fresh-container answers of the same configuration with the
// requests in reverse and in shuffled order, each starting from a process in which nothing has been served yet. "The same
// whether the request is the first or the thousandth, whichever other requests were served before": all three must agree.
func firstInAnotherProcess(ctx *core.Ctx, ci int, cf *c19Config, t *rt.Table, reqs []rt.Req, refs []string) {
	for _, order := range []string{"reverse", "shuffle"} {
		f, err := os.CreateTemp("", "verif-c19-child-*.json")
		if err != nil {
			ctx.Inconclusive("no temporary file for the reference process: " + err.Error())
			return
		}
		name := f.Name()
		f.Close()
		cctx, cancel := context.WithTimeout(context.Background(), 5*time.Minute)
		cmd := exec.CommandContext(cctx, os.Args[0], "-prop", "C19", "-tier", ctx.Tier, "-seed", fmt.Sprint(ctx.Seed), "-scale", fmt.Sprint(ctx.Scale), "-out", name+".result")
		cmd.Env = append(os.Environ(), fmt.Sprintf("VERIF_C19_CHILD=%d:%s:%s", ci, order, name))
		out, err := cmd.CombinedOutput()
		cancel()
		b, rerr := os.ReadFile(name)
		os.Remove(name)
		os.Remove(name + ".result")
		var sigs map[int]string
		if err != nil || rerr != nil || json.Unmarshal(b, &sigs) != nil || len(sigs) != len(reqs) {
			ctx.Inconclusive(fmt.Sprintf("the reference process for configuration %d (%s order) gave no answers: %v %s", ci, order, err, clip(string(out), 300)))
			return
		}
		ctx.Count("reference_processes", 1)
		for i := range reqs {
			ctx.Eval(1)
			ctx.Count("answers_compared_with_another_process", 1)
			if sigs[i] != refs[i] {
				ctx.Violation(ci, "c19:differs:first-in-another-process:"+cf.Entry, fmt.Sprintf("%s %q (X-Req %s, Accept %q): a fresh container in this process answers: %s; a fresh container in a process that served the requests in %s order answers: %s", reqs[i].Method, reqs[i].Path, reqs[i].Hdr["X-Req"], reqs[i].Accept, clip(refs[i], 600), order, clip(sigs[i], 600)),
					map[string]interface{}{"config": cf, "table": t, "request": reqs[i], "order_in_the_other_process": order, "this_process": refs[i], "other_process": sigs[i]})
				return
			}
		}
	}
}

// coldBurst: the very first requests a process sends through a route whose expression it has never used before arrive
// together (a service that has just been started behind a load balancer). All of them carry the same request; all get the
// answer that this request gets later on.
func coldBurst(ctx *core.Ctx, ci int, router string) {
	c := restful.NewContainer()
	if router == "jsr311" {
		c.Router(restful.RouterJSR311{})
	}
	// expressions nobody in this process has used yet (the configuration index and the seed make them unique)
	n := 30 + ci%900 // (regexp refuses repeat counts beyond 1000)
	root := fmt.Sprintf("/cold/{tenant:%s{1,%d}}", []string{"[a-z]", "[a-y]", "[a-x]"}[(ci/900)%3], n)
	ws := new(restful.WebService).Path(root)
	ws.Route(ws.GET(fmt.Sprintf("/{id:[0-9]{1,%d}}/{rest:[a-z0-9]{1,%d}}", n+1, n+2)).To(func(req *restful.Request, resp *restful.Response) {
		resp.Write([]byte(req.PathParameter("tenant") + "|" + req.PathParameter("id") + "|" + req.PathParameter("rest")))
	}))
	c.Add(ws)
	const workers = 16
	answers := make([]string, workers)
	var wg sync.WaitGroup
	var ready, gate int32
	for g := 0; g < workers; g++ {
		wg.Add(1)
		go func(g int) {
			defer wg.Done()
			atomic.AddInt32(&ready, 1)
			for atomic.LoadInt32(&gate) == 0 {
				runtime.Gosched()
			}
			req := rt.Req{Method: "GET", Path: "/cold/acme/4711/x9"}
			out := rt.Run(c, rt.Dispatch, &req)
			answers[g] = fmt.Sprintf("%d %q", out.Status, out.Rec.Body.String())
		}(g)
	}
	for atomic.LoadInt32(&ready) < workers {
		runtime.Gosched()
	}
	atomic.StoreInt32(&gate, 1)
	wg.Wait()
	req := rt.Req{Method: "GET", Path: "/cold/acme/4711/x9"}
	out := rt.Run(c, rt.Dispatch, &req)
	later := fmt.Sprintf("%d %q", out.Status, out.Rec.Body.String())
	ctx.Eval(workers + 1)
	ctx.Count("cold_start_bursts", 1)
	for g, a := range answers {
		if a != later || a != `200 "acme|4711|x9"` {
			ctx.Violation(ci, "c19:differs:cold-start-burst:"+router, fmt.Sprintf("GET /cold/acme/4711/x9 on %s, sent by 16 clients at once as the first requests through that route: client %d got %s, the same request afterwards gets %s", root, g, a, later),
				map[string]interface{}{"router": router, "answers_of_the_burst": answers, "answer_afterwards": later})
			return
		}
	}
}

func attrForeign(o *rt.Outcome, id string) bool {
	for _, se := range o.Obs.Sels {
		if se.Attr != "" && se.Attr != id {
			return true
		}
	}
	return false
}

func clip(s string, n int) string {
	if len(s) > n {
		return s[:n] + "..."
	}
	return s
}
