package props

import (
	"fmt"
	"sort"
	"strings"
	"sync"
	"sync/atomic"

	restful "github.com/emicklei/go-restful/v3"

	"verifharness/core"
	"verifharness/rt"
)

func init() {
	register("C17", c17)
	register("C18", c18)
}

// commonGenOpts is the template fragment both routers document: literal (nested) roots, literal / {v} route segments.
func commonGenOpts() rt.GenOpts {
	return rt.GenOpts{Router: "common", MaxSvcs: 4, MaxRoutes: 6, MaxRootLen: 2, MaxPathLen: 3, VarRoots: false, Conds: false, Media: true, Styles: true, PlainOnly: true, NoWild: true, NoRegex: true, Nested: true}
}

// setNoOptions is setOf without OPTIONS (outside the compared universe, DESIGN C17).
func setNoOptions(xs []string) string {
	var out []string
	for _, xx := range xs {
		for _, x := range strings.Split(xx, ",") {
			if strings.TrimSpace(x) != "OPTIONS" {
				out = append(out, x)
			}
		}
	}
	return setOf(out)
}

// litSegs / litChars: the primary ranking keys of CurlyRouter (static segments) and RouterJSR311 (literal characters).
func litSegs(t rt.Tmpl) int {
	n := 0
	for _, sg := range t {
		if sg.Kind == rt.Lit {
			n++
		}
	}
	return n
}

func litChars(t rt.Tmpl) int {
	n := 0
	for _, sg := range t {
		if sg.Kind == rt.Lit {
			n += len(sg.Lit)
		}
	}
	return n
}

// crossing: a has a literal where b has a variable AND b has a literal where a has a variable.
func crossing(a, b rt.Tmpl) bool {
	if len(a) != len(b) {
		return false
	}
	ab, ba := false, false
	for i := range a {
		if a[i].Kind == rt.Lit && b[i].Kind != rt.Lit {
			ab = true
		}
		if b[i].Kind == rt.Lit && a[i].Kind != rt.Lit {
			ba = true
		}
	}
	return ab && ba
}

func setOf(xs []string) string {
	m := map[string]bool{}
	for _, xx := range xs {
		for _, x := range strings.Split(xx, ",") {
			x = strings.TrimSpace(x)
			if x != "" {
				m[x] = true
			}
		}
	}
	out := make([]string, 0, len(m))
	for k := range m {
		out = append(out, k)
	}
	sort.Strings(out)
	return strings.Join(out, ",")
}

// urlsFor derives probe URLs: instantiated templates, near misses and nested-root prefixes.
func urlsFor(r *core.Rand, t *rt.Table, n int) []string {
	seen := map[string]bool{}
	var out []string
	add := func(p string) {
		if _, clean := rt.Tokens(p); clean && !seen[p] {
			seen[p] = true
			out = append(out, p)
		}
	}
	for i := range t.Svcs {
		add(t.Svcs[i].Root.String())
		add(t.Svcs[i].Root.String() + "/zzz")
	}
	for len(out) < n {
		before := len(out)
		req := rt.GenReq(r, t, "common")
		add(req.Path)
		if len(out) == before && r.Chance(1, 20) {
			break
		}
	}
	return out
}

// c17: Allow headers tell the truth about which methods are routable.
func c17(ctx *core.Ctx) {
	quietLogs()
	ctx.Rule("tables on the fragment both matching engines support (nested literal roots, literal and {v} segments, Consumes/Produces, no conditions), both routers. For each URL u: S(u) = methods in {GET,POST,PUT,DELETE,PATCH,HEAD,LOCK,UNLOCK,FIND,PROPFIND,GE} whose probe on a filter-less twin is not 404/405. Oracle: every 405's Allow set == S(u) (also for OPTIONS and an unknown method); with OPTIONSFilter installed OPTIONS u gives Allow == Access-Control-Allow-Methods == S(u), runs no route function, and every other probe equals the twin's answer. Non-trivial = a URL with non-empty S(u); distinct by (router, |S(u)|, number of matching roots, trailing slash).")
	ctx.Assume("OPTIONS itself is outside the compared universe (removed from both sides): the filter answers it by construction", "now and then a WebService whose five routes are registered from ONE reused RouteBuilder (method and path changed between the calls; every other route function writes nothing at all); every 3rd table has explicit OPTIONS routes; every 3rd table has routes added/removed on registered WebServices between three probe passes")
	tables := ctx.N(1800, 80000)
	perTable := ctx.N(25, 50)
	if !ctx.Quick() {
		perTable = 50
	}
	// the compared universe: the six usual methods and the extension methods the generator may bind routes to
	universe := append(append([]string{}, rt.Methods...), "LOCK", "UNLOCK", "FIND", "PROPFIND", "GE")
	for ti := 0; ti < tables; ti++ {
		if ctx.Skip(ti) {
			continue
		}
		router := routerOf(ti)
		r := ctx.Rand(ti, "table")
		go17 := commonGenOpts()
		go17.OddMethods = true
		// every fifth table has If-conditions: clause 1 (the Allow header of a 405) is judged per request - the routable
		// methods are probed with the request's own headers; the OPTIONS filter's list is not judged there (how it treats
		// conditions the request may or may not satisfy is not specified)
		c17BehindCors = ti%8 == 5 || ti%8 == 2
		c17CondTable = ti%5 == 3
		go17.Conds = c17CondTable
		if m := ti % 40; m == 14 || m == 15 {
			// table shapes beyond what the small tables reach (long templates, 33-40 services, long media lists, many conditions, 130 routes)
			ctx.SetAdd("scaled_table_shapes", rt.Scale(&go17, ti/40))
		} else if m == 16 || m == 17 {
			// services with up to 130 routes on a handful of colliding paths get a share of their own (many candidates per request)
			ctx.SetAdd("scaled_table_shapes", rt.Scale(&go17, 4))
		} else if m == 18 || m == 19 {
			// and so do templates of 10-18 / 10-40 / 10-70 segments (plain and with skewed literal lengths)
			ctx.SetAdd("scaled_table_shapes", rt.Scale(&go17, 5*(ti/40)))
		}
		t := rt.GenTable(r, go17)
		ctx.Case(ti, "router="+router+" table="+core.JSON(t))
		if ti%50 == 7 || ti%50 == 30 {
			c17BuilderReuse(ctx, ti, router, universe, ctx.Rand(ti, "builder-reuse"))
		}
		// every 3rd table: explicit OPTIONS routes; every 3rd: routes change between two probe passes
		if ti%3 == 1 {
			for i := range t.Svcs {
				for j := range t.Svcs[i].Routes {
					if r.Chance(1, 4) {
						t.Svcs[i].Routes[j].Method = "OPTIONS"
					}
				}
			}
		}
		dynamic := ti%3 == 2
		bo := rt.DefaultBuild(router)
		bo.Dynamic = dynamic
		var twinWS, filtWS []*restful.WebService
		build := func(withFilter bool) (*restful.Container, []*restful.WebService) {
			c := restful.NewContainer()
			pkgLevel := withFilter && ti == 0 && rt.DefaultContainerFree()
			if pkgLevel {
				// once per process: the package-level container, restful.Filter(restful.OPTIONSFilter()), restful.Add
				bd := bo
				bd.Default = true
				restful.DefaultContainer.Router(restful.CurlyRouter{})
				if router == "jsr311" {
					restful.DefaultContainer.Router(restful.RouterJSR311{})
				}
				restful.Filter(restful.OPTIONSFilter())
				ctx.Count("tables_on_the_package_level_container", 1)
				return rt.BuildWS(t, bd)
			}
			if router == "jsr311" {
				c.Router(restful.RouterJSR311{})
			}
			if c17BehindCors {
				// the OPTIONS filter sits behind a CORS filter that allows every origin (on the twin too): OPTIONS requests
				// without Access-Control-Request-Method pass through it, carrying its actual-request headers
				cors := restful.CrossOriginResourceSharing{Container: c, AllowedMethods: []string{"GET"}, CookiesAllowed: true}
				c.Filter(cors.Filter)
			}
			if withFilter {
				c.Filter(c.OPTIONSFilter)
			}
			var wss []*restful.WebService
			for i := range t.Svcs {
				ws := rt.NewService(&t.Svcs[i], nil, bo, i)
				wss = append(wss, ws)
				c.Add(ws)
			}
			return c, wss
		}
		twin, twinWS := build(false)
		filtered, filtWS := build(true)
		rr := ctx.Rand(ti, "req")
		urls := urlsFor(rr, t, perTable)
		passes := 1
		if dynamic {
			passes = 3
		}
		for pass := 0; pass < passes; pass++ {
			if pass > 0 {
				// change the routes of a registered WebService on both containers, then probe the same URLs again
				si := rr.Intn(len(t.Svcs))
				svc := &t.Svcs[si]
				if pass == 1 || len(svc.Routes) < 2 {
					src := svc.Routes[rr.Intn(len(svc.Routes))]
					nr := src
					nr.ID = 5000 + pass
					nr.Method = rr.Pick(universe)
					svc.Routes = append(svc.Routes, nr)
					rt.AddRoute(twinWS[si], &svc.Routes[len(svc.Routes)-1], bo)
					rt.AddRoute(filtWS[si], &svc.Routes[len(svc.Routes)-1], bo)
					ctx.Count("routes_added_between_passes", 1)
				} else {
					k := rr.Intn(len(svc.Routes))
					victim := svc.Routes[k]
					full := strings.TrimRight(svc.Root.String(), "/") + "/" + strings.TrimLeft(victim.Render(), "/")
					twinWS[si].RemoveRoute(full, victim.Method)
					filtWS[si].RemoveRoute(full, victim.Method)
					ctx.Count("routes_removed_between_passes", 1)
				}
			}
			c17Probe(ctx, ti, t, router, twin, filtered, urls, universe, rr, pass)
		}
		if ti%4 == 1 || ti%4 == 2 {
			// the same OPTIONS requests from 8 goroutines at once: every client gets the answer for ITS url
			want := make([]string, len(urls))
			optSig := func(u string) string {
				req := rt.Req{Method: "OPTIONS", Path: u}
				o := rt.Run(filtered, rt.Dispatch, &req)
				return fmt.Sprintf("%d allow=%s acam=%s", o.Status, setOf(rt.ParseAllow(o.Rec.Hdr().Get("Allow"))), setOf(rt.ParseAllow(o.Rec.Hdr().Get("Access-Control-Allow-Methods"))))
			}
			for i, u := range urls {
				want[i] = optSig(u)
			}
			var wg sync.WaitGroup
			var bad int32
			var first atomic.Value
			start := make(chan struct{})
			for g := 0; g < 8; g++ {
				wg.Add(1)
				go func(g int) {
					defer wg.Done()
					<-start
					for rep := 0; rep < 3; rep++ {
						for k := range urls {
							i := (k + g*3) % len(urls)
							if got := optSig(urls[i]); got != want[i] {
								atomic.AddInt32(&bad, 1)
								first.Store(fmt.Sprintf("OPTIONS %q -> %s while other OPTIONS requests are served, %s alone", urls[i], got, want[i]))
							}
						}
					}
				}(g)
			}
			close(start)
			wg.Wait()
			ctx.Eval(24 * len(urls))
			ctx.Count("concurrent_options_requests", 24*len(urls))
			if n := atomic.LoadInt32(&bad); n > 0 {
				ctx.Violation(ti, "c17:options-allow-concurrent:"+router, fmt.Sprintf("%d answer(s) differ; first: %v", n, first.Load()), caseDoc{Router: router, Entry: rt.Dispatch, Table: t})
			}
		}
	}
}

// c17BuilderReuse: an application registers its routes from ONE RouteBuilder, changing method and path between the calls
// (builders are mutable and ws.Route builds on the spot). Each route is then what the builder said at that moment: the
// 405 Allow header and the OPTIONS filter's list follow the paths the routes were registered with.
func c17BuilderReuse(ctx *core.Ctx, ti int, router string, universe []string, rr *core.Rand) {
	lit := func(s string) rt.Seg { return rt.Seg{Kind: rt.Lit, Lit: s} }
	v := func(n string) rt.Seg { return rt.Seg{Kind: rt.Var, Name: n} }
	t := &rt.Table{Svcs: []rt.SvcSpec{{ID: 0, Root: rt.Tmpl{lit("shop")}, Routes: []rt.RouteSpec{
		{ID: 9100, Method: "GET", Path: rt.Tmpl{lit("items")}},
		{ID: 9101, Method: "POST", Path: rt.Tmpl{lit("items"), v("id")}},
		{ID: 9102, Method: "DELETE", Path: rt.Tmpl{lit("stock")}},
		{ID: 9103, Method: "PUT", Path: rt.Tmpl{lit("items")}},
		{ID: 9104, Method: "PATCH", Path: rt.Tmpl{lit("stock"), v("bin"), lit("count")}},
	}}}}
	build := func(withFilter bool) *restful.Container {
		c := restful.NewContainer()
		if router == "jsr311" {
			c.Router(restful.RouterJSR311{})
		}
		if withFilter {
			c.Filter(c.OPTIONSFilter)
		}
		ws := new(restful.WebService).Path("/shop")
		b := ws.GET("/items")
		for i := range t.Svcs[0].Routes {
			rs := &t.Svcs[0].Routes[i]
			fn := rt.RouteFunc(rs.ID)
			if i%2 == 0 {
				// a route function that writes neither status nor body (the implicit empty 200): whatever a filter adds to the
				// response after the chain has returned still goes out with it
				id := rs.ID
				fn = func(req *restful.Request, resp *restful.Response) {
					if o := rt.ObsOf(req.Request); o != nil {
						o.Invokes = append(o.Invokes, rt.Invoke{RID: id})
					}
				}
			}
			ws.Route(b.Method(rs.Method).Path(rs.Render()).To(fn).Operation(fmt.Sprint("r", rs.ID)).Metadata("rid", rs.ID))
		}
		c.Add(ws)
		return c
	}
	saveCond, saveCors := c17CondTable, c17BehindCors
	c17CondTable, c17BehindCors = false, false
	c17Probe(ctx, ti, t, router, build(false), build(true), []string{"/shop/items", "/shop/items/7", "/shop/stock", "/shop/stock/b4/count", "/shop/items/", "/shop/stock/b4", "/shop"}, universe, rr, 0)
	c17CondTable, c17BehindCors = saveCond, saveCors
	ctx.Count("tables_registered_from_one_reused_builder", 1)
}

var c17CondTable, c17BehindCors bool

func c17Probe(ctx *core.Ctx, ti int, t *rt.Table, router string, twin, filtered *restful.Container, urls []string, universe []string, rr *core.Rand, pass int) {
	{
		for _, u := range urls {
			tokens, _ := rt.Tokens(u)
			var s []string
			type probe struct {
				m   string
				out *rt.Outcome
			}
			var probes []probe
			hdr := map[string]string{}
			if rr.Chance(1, 3) || c17BehindCors {
				hdr["Origin"] = "http://example.com" // the OPTIONS filter must leave every other method untouched, headers included
			}
			if c17CondTable {
				for k := 0; k < 3; k++ {
					if rr.Chance(1, 2) {
						hdr[fmt.Sprintf("X-C%d", k)] = "1"
					}
				}
			}
			for _, m := range append(append([]string{}, universe...), "OPTIONS", "FOO") {
				req := rt.Req{Method: m, Path: u, Hdr: hdr}
				if m == "POST" || m == "PUT" || m == "PATCH" {
					if rr.Chance(1, 2) {
						req.BodyLen = 4
						req.HasCT, req.CT = true, rr.Pick(rt.Medias)
					}
				}
				if rr.Chance(1, 3) {
					req.HasAcc, req.Accept = true, rr.Pick(rt.Medias)
				}
				o := rt.Run(twin, rt.Dispatch, &req)
				ctx.Eval(1)
				probes = append(probes, probe{m, o})
				if m != "OPTIONS" && m != "FOO" && o.Status != 404 && o.Status != 405 {
					s = append(s, m)
				}
				// non-OPTIONS requests are untouched by the filter
				if m != "OPTIONS" {
					of := rt.Run(filtered, rt.Dispatch, &req)
					ctx.Eval(1)
					if fullSig(of) != fullSig(o) {
						ctx.Violation(ti, "c17:filter-touches-"+router, fmt.Sprintf("%s %q: %s with OPTIONSFilter, %s without", m, u, fullSig(of), fullSig(o)),
							caseDoc{Router: router, Entry: rt.Dispatch, Table: t, Req: req, Obs: of, Want: o.Sig()})
					}
				}
			}
			want := setOf(s)
			nroots := 0
			for i := range t.Svcs {
				if rt.MatchRoot(t.Svcs[i].Root, tokens) == rt.Yes {
					nroots++
				}
			}
			if len(s) > 0 {
				ctx.Sig(fmt.Sprintf("%s|S=%d|roots=%d|slash=%v|pass=%d", router, len(s), nroots, strings.HasSuffix(u, "/") && u != "/", pass))
				ctx.Count("urls_with_routable_methods", 1)
			}
			for _, p := range probes {
				if p.out.Status == 405 {
					ctx.Count("allow_405_checked", 1)
					got := setNoOptions(p.out.Allow)
					if got != want {
						ctx.Violation(ti, "c17:405-allow:"+router, fmt.Sprintf("%s %q: 405 Allow={%s} but the routable methods are {%s}", p.m, u, got, want),
							caseDoc{Router: router, Entry: rt.Dispatch, Table: t, Req: rt.Req{Method: p.m, Path: u}, Obs: p.out, Want: want})
					}
				}
			}
			if c17CondTable {
				ctx.Count("urls_on_tables_with_conditions", 1)
				continue
			}
			// OPTIONS through the filter
			oreq := rt.Req{Method: "OPTIONS", Path: u, Hdr: hdr}
			if rr.Chance(1, 3) && !c17BehindCors {
				// the OPTIONS filter answers for the URL, whatever method a browser announces
				oh := map[string]string{"Access-Control-Request-Method": rr.Pick(append([]string{"FOO"}, universe...))}
				for k, v := range hdr {
					oh[k] = v
				}
				oreq.Hdr = oh
			}
			oo := rt.Run(filtered, rt.Dispatch, &oreq)
			ctx.Eval(1)
			ctx.Count("options_checked", 1)
			doc := caseDoc{Router: router, Entry: rt.Dispatch, Table: t, Req: oreq, Obs: oo, Want: want}
			if len(oo.Obs.Invokes) > 0 {
				ctx.Violation(ti, "c17:options-invokes:"+router, fmt.Sprintf("OPTIONS %q ran a route function although OPTIONSFilter is installed", u), doc)
			}
			h := oo.Rec.Hdr()
			if len(h["Allow"]) != 1 || len(h["Access-Control-Allow-Methods"]) != 1 {
				ctx.Violation(ti, "c17:options-header-count:"+router, fmt.Sprintf("OPTIONS %q: %d Allow and %d Access-Control-Allow-Methods header fields (one each expected)", u, len(h["Allow"]), len(h["Access-Control-Allow-Methods"])), doc)
			}
			allow := setNoOptions(h["Allow"])
			acam := setNoOptions(h["Access-Control-Allow-Methods"])
			if allow != want || acam != want {
				ctx.Violation(ti, "c17:options-allow:"+router, fmt.Sprintf("OPTIONS %q: Allow={%s} Access-Control-Allow-Methods={%s}, routable methods are {%s}", u, allow, acam, want), doc)
			}
			if ctx.WantSample() && len(s) > 1 {
				ctx.Sample(map[string]interface{}{"router": router, "url": u, "routable": want, "options_allow": allow, "table_routes": t.NumRoutes()})
			}
		}
	}
}

// c18: the two routers agree wherever both are specified.
func c18(ctx *core.Ctx) {
	quietLogs()
	ctx.Rule("twin containers built from the same table on the common fragment (nested literal roots; literal and {v} route segments; Consumes/Produces; conditions), differing only in router; every request (hits, near misses, trailing slash, Content-Type/Accept grammar, body or none) must give the same status, route function, parameter values and Allow set. Non-trivial = a request that reaches route level in at least one router; distinct by (outcome class, template shape or request class). Every third table may repeat a variable name inside a template (which value is bound is not specified; the routers must agree). Every sixth table lives on WebServices with dynamic routes and loses a route (RemoveRoute on both twins) between two passes.")
	ctx.Assume("paths are clean (no empty segments): the routers tokenise unclean paths differently and the property is silent there (DESIGN §4.2)")
	tables := ctx.N(5000, 400000)
	perTable := ctx.N(40, 60)
	if !ctx.Quick() {
		perTable = 60
	}
	for ti := 0; ti < tables; ti++ {
		if ctx.Skip(ti) {
			continue
		}
		r := ctx.Rand(ti, "table")
		o := commonGenOpts()
		o.Conds = true
		o.StarMedia = true
		o.Twins = true
		o.DupNames = ti%3 == 1
		if m := ti % 40; m == 14 || m == 15 {
			// table shapes beyond what the small tables reach (long templates, 33-40 services, long media lists, many conditions, 130 routes)
			ctx.SetAdd("scaled_table_shapes", rt.Scale(&o, ti/40))
		} else if m == 16 || m == 17 {
			// services with up to 130 routes on a handful of colliding paths get a share of their own (many candidates per request)
			ctx.SetAdd("scaled_table_shapes", rt.Scale(&o, 4))
		} else if m == 18 || m == 19 {
			// and so do templates of 10-18 / 10-40 / 10-70 segments (plain and with skewed literal lengths)
			ctx.SetAdd("scaled_table_shapes", rt.Scale(&o, 5*(ti/40)))
		}
		t := rt.GenTable(r, o)
		ctx.Case(ti, "table="+core.JSON(t))
		var cs [2]*restful.Container
		ba, bb := rt.DefaultBuild("curly"), rt.DefaultBuild("jsr311")
		if ti%4 == 2 || ti%4 == 1 {
			// "switching a container's router is unobservable": both twins were configured with the other router first
			ba.Switched, bb.Switched = true, true
		}
		// every sixth table lives on WebServices with dynamic routes: after the first pass a route is removed on both twins
		dyn := ti%6 == 5
		var wsA, wsB []*restful.WebService
		if dyn {
			ba.Dynamic, bb.Dynamic = true, true
			cs[0], wsA = rt.BuildWS(t, ba)
			cs[1], wsB = rt.BuildWS(t, bb)
		} else {
			cs[0] = rt.Build(t, ba)
			cs[1] = rt.Build(t, bb)
		}
		for _, c := range cs {
			// application code may write into the parameter map it is handed; both routers must hand out a map of the request's own
			c.Filter(func(req *restful.Request, resp *restful.Response, chain *restful.FilterChain) {
				if pp := req.PathParameters(); pp != nil {
					pp["w-"+req.Request.Header.Get("X-Req")] = "1"
				}
				chain.ProcessFilter(req, resp)
			})
		}
		removed := map[int]bool{}
		judge := func(req rt.Req, a, b *rt.Outcome, phase string) {
			if a.Sig() != b.Sig() {
				sig := "c18:" + a.Class() + "-vs-" + b.Class()
				if removed[a.RID()] || removed[b.RID()] {
					ctx.Violation(ti, "c18:removed-route-runs", fmt.Sprintf("%s %q after RemoveRoute on both twins: CurlyRouter -> %s, RouterJSR311 -> %s", req.Method, req.Path, a.Sig(), b.Sig()),
						caseDoc{Router: "curly-vs-jsr311", Entry: rt.Dispatch, Table: t, Req: req, Obs: a, Want: b.Sig(), Note: "removed routes: " + fmt.Sprint(removed)})
					return
				}
				if ra, rb := a.RID(), b.RID(); ra >= 0 && rb >= 0 && ra != rb {
					sa, ta := t.Route(ra)
					sb, tb := t.Route(rb)
					fa, fb := rt.Full(sa, ta), rt.Full(sb, tb)
					switch {
					case fa.String() == fb.String():
						sig = "c18:rank-same-template" // twins (same method and template): both routers must take the first registered
					case routeDominates(fa, fb) || routeDominates(fb, fa) || len(fa) != len(fb):
						sig = "c18:rank-dominated"
					case crossing(fa, fb):
						// each template has a literal where the other has a variable: KNOWN_FINDINGS.txt (ranking policies differ:
						// CurlyRouter prefers more static segments, RouterJSR311 more literal characters). The finding covers
						// exactly the disagreements in which each router follows its own key; a router that picks AGAINST its own
						// key among these two eligible routes is something else
						sig = "c18:rank-incomparable"
						if sa == sb {
							if litSegs(fa) < litSegs(fb) {
								sig = "c18:rank-incomparable:curly-against-static-segments"
							} else if litChars(fb) < litChars(fa) {
								sig = "c18:rank-incomparable:jsr311-against-literal-characters"
							}
						}
						if sig == "c18:rank-incomparable" {
							ctx.Count("known_rank_incomparable", 1)
						}
					default:
						sig = "c18:rank-same-shape"
					}
				}
				ctx.Violation(ti, sig, fmt.Sprintf("%s%s %q (ct=%q accept=%q body=%d): CurlyRouter -> %s, RouterJSR311 -> %s", phase, req.Method, req.Path, req.CT, req.Accept, req.BodyLen, a.Sig(), b.Sig()),
					caseDoc{Router: "curly-vs-jsr311", Entry: rt.Dispatch, Table: t, Req: req, Obs: a, Want: b.Sig()})
			}
		}
		rr := ctx.Rand(ti, "req")
		var reqs []rt.Req
		var seqA, seqB []string
		for qi := 0; qi < perTable; qi++ {
			req := rt.GenReq(rr, t, "common")
			if _, clean := rt.Tokens(req.Path); !clean {
				continue
			}
			if req.Hdr == nil {
				req.Hdr = map[string]string{}
			}
			req.Hdr["X-Req"] = fmt.Sprintf("%d-%d", ti, qi)
			reqs = append(reqs, req)
			seqA = append(seqA, "")
			seqB = append(seqB, "")
			a := rt.Run(cs[0], rt.Dispatch, &req)
			b := rt.Run(cs[1], rt.Dispatch, &req)
			seqA[len(seqA)-1], seqB[len(seqB)-1] = a.Sig(), b.Sig()
			ctx.Eval(2)
			shape := req.Class
			if rid := a.RID(); rid >= 0 {
				s, rs := t.Route(rid)
				shape = rt.Full(s, rs).Shape()
			}
			if a.Status != 404 || b.Status != 404 {
				ctx.Sig(fmt.Sprintf("%s|%s", a.Class(), shape))
			}
			judge(req, a, b, "")
			if ctx.WantSample() && a.RID() >= 0 {
				ctx.Sample(map[string]interface{}{"request": req, "curly": a.Sig(), "jsr311": b.Sig()})
			}
		}
		if dyn && len(reqs) > 0 {
			// RemoveRoute on both twins (preferably a route that some request of the first pass ran), then the same requests
			// again: what is gone is gone for both routers, what remains is ranked as before
			victim := -1
			for i := range reqs {
				if o := rt.Run(cs[0], rt.Dispatch, &reqs[i]); o.RID() >= 0 && (victim < 0 || rr.Chance(1, 3)) {
					victim = o.RID()
				}
			}
			if victim >= 0 {
				vs, vr := t.Route(victim)
				for si := range t.Svcs {
					if &t.Svcs[si] != vs || wsA[si] == nil || wsB[si] == nil {
						continue
					}
					for _, lr := range wsA[si].Routes() {
						if id, ok := lr.Metadata["rid"].(int); ok && id == victim {
							for _, other := range wsA[si].Routes() {
								if oid, ok := other.Metadata["rid"].(int); ok && other.Path == lr.Path && other.Method == lr.Method {
									removed[oid] = true // RemoveRoute takes all routes of that method and path
								}
							}
							wsA[si].RemoveRoute(lr.Path, lr.Method)
							wsB[si].RemoveRoute(lr.Path, lr.Method)
							break
						}
					}
				}
				if len(removed) > 0 {
					ctx.Count("tables_with_a_route_removed_on_both_twins", 1)
					phase := fmt.Sprintf("after RemoveRoute(%s %s) on both twins: ", vr.Method, rt.Full(vs, vr))
					for i := range reqs {
						a := rt.Run(cs[0], rt.Dispatch, &reqs[i])
						b := rt.Run(cs[1], rt.Dispatch, &reqs[i])
						seqA[i], seqB[i] = a.Sig(), b.Sig()
						ctx.Eval(2)
						ctx.Count("requests_after_remove_route", 1)
						if removed[a.RID()] || removed[b.RID()] {
							ctx.Violation(ti, "c18:removed-route-runs", fmt.Sprintf("%s%s %q: CurlyRouter -> %s, RouterJSR311 -> %s", phase, reqs[i].Method, reqs[i].Path, a.Sig(), b.Sig()),
								caseDoc{Router: "curly-vs-jsr311", Entry: rt.Dispatch, Table: t, Req: reqs[i], Obs: a, Want: b.Sig()})
							continue
						}
						judge(reqs[i], a, b, phase)
					}
				}
			}
		}
		if ti%4 == 0 && len(reqs) > 0 {
			// agreement must also hold while the twins serve 8 goroutines each
			sa, sb := make([]string, len(reqs)), make([]string, len(reqs))
			concurrentBatch(cs[0], rt.Dispatch, reqs, 8, func(i int, out *rt.Outcome) { sa[i] = out.Sig() })
			concurrentBatch(cs[1], rt.Dispatch, reqs, 8, func(i int, out *rt.Outcome) { sb[i] = out.Sig() })
			ctx.Eval(2 * len(reqs))
			ctx.Count("concurrent_pairs", len(reqs))
			for i := range reqs {
				// each twin must answer as it did sequentially, hence the twins still agree
				if sa[i] != seqA[i] {
					ctx.Violation(ti, "c18:concurrent:curly", fmt.Sprintf("%s %q under concurrency: CurlyRouter -> %s (sequentially %s, RouterJSR311 %s)", reqs[i].Method, reqs[i].Path, sa[i], seqA[i], sb[i]),
						caseDoc{Router: "curly", Entry: rt.Dispatch + "-concurrent", Table: t, Req: reqs[i], Want: seqA[i], Note: sa[i]})
				}
				if sb[i] != seqB[i] {
					ctx.Violation(ti, "c18:concurrent:jsr311", fmt.Sprintf("%s %q under concurrency: RouterJSR311 -> %s (sequentially %s, CurlyRouter %s)", reqs[i].Method, reqs[i].Path, sb[i], seqB[i], sa[i]),
						caseDoc{Router: "jsr311", Entry: rt.Dispatch + "-concurrent", Table: t, Req: reqs[i], Want: seqB[i], Note: sb[i]})
				}
			}
		}
	}
}
