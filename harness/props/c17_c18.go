package props

import (
	"fmt"
	"sort"
	"strings"

	restful "github.com/emicklei/go-restful/v3"

	"verifharness/core"
	"verifharness/rt"
)

func init() {
	register("C17", c17)
	register("C18", c18)
}

// commonGenOpts is the template fragment both routers document: literal (nested) roots, literal / {v} route segments.
func commonGenOpts() rt.GenOpts {
	return rt.GenOpts{Router: "common", MaxSvcs: 4, MaxRoutes: 6, MaxRootLen: 2, MaxPathLen: 3, VarRoots: false, Conds: false, Media: true, Styles: true, PlainOnly: true, NoWild: true, NoRegex: true, Nested: true}
}

func setOf(xs []string) string {
	m := map[string]bool{}
	for _, x := range xs {
		x = strings.TrimSpace(x)
		if x != "" {
			m[x] = true
		}
	}
	out := make([]string, 0, len(m))
	for k := range m {
		out = append(out, k)
	}
	sort.Strings(out)
	return strings.Join(out, ",")
}

// urlsFor derives probe URLs: instantiated templates, near misses and nested-root prefixes.
func urlsFor(r *core.Rand, t *rt.Table, n int) []string {
	seen := map[string]bool{}
	var out []string
	add := func(p string) {
		if _, clean := rt.Tokens(p); clean && !seen[p] {
			seen[p] = true
			out = append(out, p)
		}
	}
	for i := range t.Svcs {
		add(t.Svcs[i].Root.String())
		add(t.Svcs[i].Root.String() + "/zzz")
	}
	for len(out) < n {
		before := len(out)
		req := rt.GenReq(r, t, "common")
		add(req.Path)
		if len(out) == before && r.Chance(1, 20) {
			break
		}
	}
	return out
}

// c17: Allow headers tell the truth about which methods are routable.
func c17(ctx *core.Ctx) {
	quietLogs()
	ctx.Rule("tables on the fragment both matching engines support (nested literal roots, literal and {v} segments, Consumes/Produces, no conditions), both routers. For each URL u: S(u) = methods in {GET,POST,PUT,DELETE,PATCH,HEAD} whose probe on a filter-less twin is not 404/405. Oracle: every 405's Allow set == S(u) (also for OPTIONS and an unknown method); with OPTIONSFilter installed OPTIONS u gives Allow == Access-Control-Allow-Methods == S(u), runs no route function, and every other probe equals the twin's answer. Non-trivial = a URL with non-empty S(u); distinct by (router, |S(u)|, number of matching roots, trailing slash).")
	ctx.Assume("OPTIONS itself is outside the compared universe: the filter answers it by construction")
	tables := ctx.N(2500, 30000)
	perTable := ctx.N(25, 50)
	if !ctx.Quick() {
		perTable = 50
	}
	universe := rt.Methods
	for ti := 0; ti < tables; ti++ {
		if ctx.Skip(ti) {
			continue
		}
		router := routerOf(ti)
		r := ctx.Rand(ti, "table")
		t := rt.GenTable(r, commonGenOpts())
		ctx.Case(ti, "router="+router+" table="+core.JSON(t))
		twin := rt.Build(t, rt.DefaultBuild(router))
		filtered := rt.Build(t, rt.DefaultBuild(router))
		filtered.Filter(filtered.OPTIONSFilter)
		rr := ctx.Rand(ti, "req")
		for _, u := range urlsFor(rr, t, perTable) {
			tokens, _ := rt.Tokens(u)
			var s []string
			type probe struct {
				m   string
				out *rt.Outcome
			}
			var probes []probe
			hdr := map[string]string{}
			for _, m := range append(append([]string{}, universe...), "OPTIONS", "FOO") {
				req := rt.Req{Method: m, Path: u, Hdr: hdr}
				if m == "POST" || m == "PUT" || m == "PATCH" {
					if rr.Chance(1, 2) {
						req.BodyLen = 4
						req.HasCT, req.CT = true, rr.Pick(rt.Medias)
					}
				}
				if rr.Chance(1, 3) {
					req.HasAcc, req.Accept = true, rr.Pick(rt.Medias)
				}
				o := rt.Run(twin, rt.Dispatch, &req)
				ctx.Eval(1)
				probes = append(probes, probe{m, o})
				if m != "OPTIONS" && m != "FOO" && o.Status != 404 && o.Status != 405 {
					s = append(s, m)
				}
				// non-OPTIONS requests are untouched by the filter
				if m != "OPTIONS" {
					of := rt.Run(filtered, rt.Dispatch, &req)
					ctx.Eval(1)
					if of.Sig() != o.Sig() {
						ctx.Violation(ti, "c17:filter-touches-"+router, fmt.Sprintf("%s %q: %s with OPTIONSFilter, %s without", m, u, of.Sig(), o.Sig()),
							caseDoc{Router: router, Entry: rt.Dispatch, Table: t, Req: req, Obs: of, Want: o.Sig()})
					}
				}
			}
			want := setOf(s)
			nroots := 0
			for i := range t.Svcs {
				if rt.MatchRoot(t.Svcs[i].Root, tokens) == rt.Yes {
					nroots++
				}
			}
			if len(s) > 0 {
				ctx.Sig(fmt.Sprintf("%s|S=%d|roots=%d|slash=%v", router, len(s), nroots, strings.HasSuffix(u, "/") && u != "/"))
				ctx.Count("urls_with_routable_methods", 1)
			}
			for _, p := range probes {
				if p.out.Status == 405 {
					ctx.Count("allow_405_checked", 1)
					got := setOf(p.out.Allow)
					if got != want {
						ctx.Violation(ti, "c17:405-allow:"+router, fmt.Sprintf("%s %q: 405 Allow={%s} but the routable methods are {%s}", p.m, u, got, want),
							caseDoc{Router: router, Entry: rt.Dispatch, Table: t, Req: rt.Req{Method: p.m, Path: u}, Obs: p.out, Want: want})
					}
				}
			}
			// OPTIONS through the filter
			oreq := rt.Req{Method: "OPTIONS", Path: u, Hdr: hdr}
			oo := rt.Run(filtered, rt.Dispatch, &oreq)
			ctx.Eval(1)
			ctx.Count("options_checked", 1)
			doc := caseDoc{Router: router, Entry: rt.Dispatch, Table: t, Req: oreq, Obs: oo, Want: want}
			if len(oo.Obs.Invokes) > 0 {
				ctx.Violation(ti, "c17:options-invokes:"+router, fmt.Sprintf("OPTIONS %q ran a route function although OPTIONSFilter is installed", u), doc)
			}
			h := oo.Rec.Hdr()
			allow := setOf(strings.Split(strings.Join(h["Allow"], ","), ","))
			acam := setOf(strings.Split(strings.Join(h["Access-Control-Allow-Methods"], ","), ","))
			if allow != want || acam != want {
				ctx.Violation(ti, "c17:options-allow:"+router, fmt.Sprintf("OPTIONS %q: Allow={%s} Access-Control-Allow-Methods={%s}, routable methods are {%s}", u, allow, acam, want), doc)
			}
			if ctx.WantSample() && len(s) > 1 {
				ctx.Sample(map[string]interface{}{"router": router, "url": u, "routable": want, "options_allow": allow, "table_routes": t.NumRoutes()})
			}
		}
	}
}

// c18: the two routers agree wherever both are specified.
func c18(ctx *core.Ctx) {
	quietLogs()
	ctx.Rule("twin containers built from the same table on the common fragment (nested literal roots; literal and {v} route segments; Consumes/Produces; conditions), differing only in router; every request (hits, near misses, trailing slash, Content-Type/Accept grammar, body or none) must give the same status, route function, parameter values and Allow set. Non-trivial = a request that reaches route level in at least one router; distinct by (outcome class, template shape or request class).")
	ctx.Assume("paths are clean (no empty segments): the routers tokenise unclean paths differently and the property is silent there (DESIGN §4.2)")
	tables := ctx.N(5000, 80000)
	perTable := ctx.N(40, 60)
	if !ctx.Quick() {
		perTable = 60
	}
	for ti := 0; ti < tables; ti++ {
		if ctx.Skip(ti) {
			continue
		}
		r := ctx.Rand(ti, "table")
		o := commonGenOpts()
		o.Conds = true
		o.StarMedia = true
		t := rt.GenTable(r, o)
		ctx.Case(ti, "table="+core.JSON(t))
		var cs [2]*restful.Container
		cs[0] = rt.Build(t, rt.DefaultBuild("curly"))
		cs[1] = rt.Build(t, rt.DefaultBuild("jsr311"))
		rr := ctx.Rand(ti, "req")
		for qi := 0; qi < perTable; qi++ {
			req := rt.GenReq(rr, t, "common")
			if _, clean := rt.Tokens(req.Path); !clean {
				continue
			}
			a := rt.Run(cs[0], rt.Dispatch, &req)
			b := rt.Run(cs[1], rt.Dispatch, &req)
			ctx.Eval(2)
			shape := req.Class
			if rid := a.RID(); rid >= 0 {
				s, rs := t.Route(rid)
				shape = rt.Full(s, rs).Shape()
			}
			if a.Status != 404 || b.Status != 404 {
				ctx.Sig(fmt.Sprintf("%s|%s", a.Class(), shape))
			}
			if a.Sig() != b.Sig() {
				sig := "c18:" + a.Class() + "-vs-" + b.Class()
				if ra, rb := a.RID(), b.RID(); ra >= 0 && rb >= 0 && ra != rb {
					sa, ta := t.Route(ra)
					sb, tb := t.Route(rb)
					fa, fb := rt.Full(sa, ta), rt.Full(sb, tb)
					if routeDominates(fa, fb) || routeDominates(fb, fa) || len(fa) != len(fb) {
						sig = "c18:rank-dominated"
					} else {
						// neither template is more specific than the other: KNOWN_FINDINGS.txt (ranking policies differ)
						sig = "c18:rank-incomparable"
						ctx.Count("known_rank_incomparable", 1)
					}
				}
				ctx.Violation(ti, sig, fmt.Sprintf("%s %q (ct=%q accept=%q body=%d): CurlyRouter -> %s, RouterJSR311 -> %s", req.Method, req.Path, req.CT, req.Accept, req.BodyLen, a.Sig(), b.Sig()),
					caseDoc{Router: "curly-vs-jsr311", Entry: rt.Dispatch, Table: t, Req: req, Obs: a, Want: b.Sig()})
			}
			if ctx.WantSample() && a.RID() >= 0 {
				ctx.Sample(map[string]interface{}{"request": req, "curly": a.Sig(), "jsr311": b.Sig()})
			}
		}
	}
}
