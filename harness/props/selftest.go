package props

import (
	"fmt"

	"verifharness/core"
	"verifharness/rt"
)

func init() { register("selftest", selftest) }

// selfTests are appended to by the monitors that need a "deaf monitor" guard (DESIGN C13).
var selfTests []func(*core.Ctx)

// selftest checks the harness's own reference tables and monitors; it never touches go-restful behaviour.
func selftest(ctx *core.Ctx) {
	ctx.Rule("harness self-test")
	for i, r := range rt.Regexes {
		s := rt.Seg{Kind: rt.VarRe, Name: "v", Re: i}
		for _, y := range r.Yes {
			if tri, _ := rt.MatchFull(rt.Tmpl{s}, []string{y}); tri != rt.Yes {
				ctx.Violation(-1, "selftest", fmt.Sprintf("regex %s: %q should fully match", r.Src, y), nil)
			}
		}
		for _, n := range r.No {
			if tri, _ := rt.MatchFull(rt.Tmpl{s}, []string{n}); tri != rt.No {
				ctx.Violation(-1, "selftest", fmt.Sprintf("regex %s: %q should not match at all", r.Src, n), nil)
			}
		}
		for _, p := range r.Part {
			if tri, _ := rt.MatchFull(rt.Tmpl{s}, []string{p}); tri != rt.Unspec {
				ctx.Violation(-1, "selftest", fmt.Sprintf("regex %s: %q should be a partial match", r.Src, p), nil)
			}
		}
		ctx.Eval(1)
		ctx.Sig(r.Src)
	}
	for _, f := range selfTests {
		f(ctx)
	}
}
