package props

import (
	"fmt"
	"net/http"
	"strings"
	"sync"
	"sync/atomic"

	restful "github.com/emicklei/go-restful/v3"

	"verifharness/core"
	"verifharness/rt"
)

// tapLogger receives go-restful's trace lines; it only counts them.
type tapLogger struct{ n int64 }

func (t *tapLogger) Print(v ...interface{})                 { atomic.AddInt64(&t.n, 1) }
func (t *tapLogger) Printf(format string, v ...interface{}) { atomic.AddInt64(&t.n, 1) }

var tap = &tapLogger{}

// quietLogs routes the library's own logging into the tap (keeps stderr for crashes only).
func quietLogs() {
	restful.SetLogger(tap)
	restful.TraceLogger(tap)
	restful.EnableTracing(false)
}

// setTracing switches trace logging the way applications do: with EnableTracing, or by handing TraceLogger a logger / nil
// ("TraceLogger(nil)" is the documented way to switch it off).
func setTracing(on bool, style int) {
	if style%2 == 0 {
		restful.TraceLogger(tap)
		restful.EnableTracing(on)
		return
	}
	if on {
		restful.TraceLogger(tap)
	} else {
		restful.TraceLogger(nil)
	}
}

func routerOf(i int) string {
	if i%2 == 1 {
		return "jsr311"
	}
	return "curly"
}

func fullGenOpts(router string) rt.GenOpts {
	return rt.GenOpts{Router: router, MaxSvcs: 3, MaxRoutes: 6, MaxRootLen: 2, MaxPathLen: 4, VarRoots: true, Conds: true, Media: true, Styles: true, StarMedia: true}
}

type caseDoc struct {
	Router string      `json:"router"`
	Entry  string      `json:"entry"`
	Table  *rt.Table   `json:"table"`
	Req    rt.Req      `json:"request"`
	Obs    *rt.Outcome `json:"observed,omitempty"`
	Want   interface{} `json:"expected,omitempty"`
	Note   string      `json:"note,omitempty"`
}

func init() {
	register("C01", c01)
	register("C02", c02)
}

// concurrentBatch sends the requests to one container from g goroutines released together;
// check runs on the issuing goroutine (the collector is thread-safe).
func concurrentBatch(c *restful.Container, entry string, reqs []rt.Req, g int, check func(i int, out *rt.Outcome)) {
	var wg sync.WaitGroup
	start := make(chan struct{})
	for k := 0; k < g; k++ {
		wg.Add(1)
		go func(k int) {
			defer wg.Done()
			<-start
			for i := k; i < len(reqs); i += g {
				out := rt.Run(c, entry, &reqs[i])
				check(i, out)
			}
		}(k)
	}
	close(start)
	wg.Wait()
}

// c01: whenever a route function runs, the request is one its declaration admits.
func c01(ctx *core.Ctx) {
	quietLogs()
	defer restful.DefaultRequestContentType("")
	ctx.Rule("seeded tables (1-3 WebServices, every 4th container had its router switched back and forth first; variable/regex roots, literal/{v}/{v:re}/{v}suffix/{v:*}/:verb segments, Consumes/Produces, If-conditions) x requests (template-derived hits, single-mutation near misses, adversarial); both routers; Dispatch and ServeHTTP; every 3rd table also replays its requests from 8 concurrent goroutines. Oracle runs on every route-function invocation. Non-trivial = an invocation or a refused near miss; distinct by (router, entry, template kind-shape, request class, outcome class).")
	ctx.Assume("reference matcher is three-valued; partial regex matches, empty segments and zero-length tail wildcards are not judged (DESIGN §4)",
		"requests are hand-built http.Requests with consistent ContentLength/Content-Length")
	tables := ctx.N(4000, 400000)
	perTable := ctx.N(40, 60)
	if !ctx.Quick() {
		perTable = 60
	}
	for ti := 0; ti < tables; ti++ {
		if ctx.Skip(ti) {
			continue
		}
		router := routerOf(ti)
		r := ctx.Rand(ti, "table")
		o := fullGenOpts(router)
		if m := ti % 40; m == 14 || m == 15 {
			// table shapes beyond what the small tables reach (long templates, 33-40 services, long media lists, many conditions, 130 routes)
			ctx.SetAdd("scaled_table_shapes", rt.Scale(&o, ti/40))
		} else if m == 16 || m == 17 {
			// services with up to 130 routes on a handful of colliding paths get a share of their own (many candidates per request)
			ctx.SetAdd("scaled_table_shapes", rt.Scale(&o, 4))
		} else if m == 18 || m == 19 {
			// and so do templates of 10-18 / 10-40 / 10-70 segments (plain and with skewed literal lengths)
			ctx.SetAdd("scaled_table_shapes", rt.Scale(&o, 5*(ti/40)))
		}
		t := rt.GenTable(r, o)
		ctx.Case(ti, "router="+router+" table="+core.JSON(t))
		bo := rt.DefaultBuild(router)
		bo.SelFilters = true
		bo.Switched = ti%8 == 2 || ti%8 == 5 // both routers get their turn (the router is chosen by parity)
		bo.Default = ti == 0                 // once per process: the package-level DefaultContainer through restful.Add / restful.Filter
		c := rt.Build(t, bo)
		if ti%16 == 6 || ti%16 == 11 {
			// the package-level default for READING entities without Content-Type is set (by this or another container in
			// the process); which route admits a request without Content-Type does not depend on it
			restful.DefaultRequestContentType([]string{restful.MIME_JSON, restful.MIME_XML}[(ti/16)%2])
			ctx.Count("tables_with_default_request_content_type", 1)
		} else {
			restful.DefaultRequestContentType("")
		}
		rr := ctx.Rand(ti, "req")
		var reqs []rt.Req
		for qi := 0; qi < perTable; qi++ {
			req := rt.GenReq(rr, t, router)
			entry := rt.Dispatch
			if _, clean := rt.Tokens(req.Path); clean && qi%4 == 3 {
				entry = rt.ServeHTTP
			}
			out := rt.Run(c, entry, &req)
			ctx.Eval(1)
			checkC01(ctx, ti, t, router, entry, &req, out)
			reqs = append(reqs, req)
		}
		if ti%3 == 0 {
			// the same oracle while 8 goroutines share the container (selection state must be per request)
			concurrentBatch(c, rt.Dispatch, reqs, 8, func(i int, out *rt.Outcome) {
				ctx.Eval(1)
				ctx.Count("concurrent_requests", 1)
				checkC01(ctx, ti, t, router, rt.Dispatch+"-concurrent", &reqs[i], out)
			})
		}
		if ti%50 == 3 {
			builderReuse(ctx, ti, "curly")
			builderReuse(ctx, ti, "jsr311")
		}
	}
}

// builderReuse: one RouteBuilder used for three routes. What it accumulates (conditions) belongs to the later
// routes as well; what an earlier route was built with stays that route's own.
func builderReuse(ctx *core.Ctx, ti int, router string) {
	c := restful.NewContainer()
	if router == "jsr311" {
		c.Router(restful.RouterJSR311{})
	}
	ran := ""
	fn := func(name string) restful.RouteFunction {
		return func(req *restful.Request, resp *restful.Response) { ran += name; resp.WriteHeader(200) }
	}
	cond := func(h string) restful.RouteSelectionConditionFunction {
		return func(r *http.Request) bool { return r.Header.Get(h) == "1" }
	}
	ws := new(restful.WebService).Path("/reuse")
	b := ws.GET("/a").If(cond("X-H1")).To(fn("a"))
	ws.Route(b)
	ws.Route(b.Path("/b").If(cond("X-H2")).To(fn("b")))
	ws.Route(b.Method("POST").Path("/c").To(fn("c")))
	c.Add(ws)
	for _, probe := range []struct {
		method, path string
		needs        []string
	}{{"GET", "/reuse/a", []string{"X-H1"}}, {"GET", "/reuse/b", []string{"X-H1", "X-H2"}}, {"POST", "/reuse/c", []string{"X-H1", "X-H2"}}} {
		for mask := 0; mask < 4; mask++ {
			req := rt.Req{Method: probe.method, Path: probe.path, Hdr: map[string]string{}}
			if mask&1 != 0 {
				req.Hdr["X-H1"] = "1"
			}
			if mask&2 != 0 {
				req.Hdr["X-H2"] = "1"
			}
			want := true
			for _, h := range probe.needs {
				if req.Hdr[h] != "1" {
					want = false
				}
			}
			ran = ""
			out := rt.Run(c, rt.Dispatch, &req)
			ctx.Eval(1)
			ctx.Count("builder_reuse_probes", 1)
			wantRan := ""
			if want {
				wantRan = probe.path[len(probe.path)-1:]
			}
			if ran != wantRan {
				ctx.Violation(ti, "c01:builder-reuse:"+router, fmt.Sprintf("%s %s with headers %v: route function(s) %q ran, expected %q (conditions declared on the shared builder: a:H1, b:H1+H2, c:H1+H2); status %d", probe.method, probe.path, req.Hdr, ran, wantRan, out.Status),
					map[string]interface{}{"router": router, "request": req, "ran": ran, "expected": wantRan})
			}
		}
	}
	ctx.Sig("builder-reuse|" + router)
}

func checkC01(ctx *core.Ctx, ti int, t *rt.Table, router, entry string, req *rt.Req, out *rt.Outcome) {
	doc := func(note string) caseDoc {
		return caseDoc{Router: router, Entry: entry, Table: t, Req: *req, Obs: out, Note: note}
	}
	tokens, clean := rt.Tokens(req.Path)
	if len(out.Obs.Invokes) == 0 {
		// no route function runs: then no route is "the selected route" for the filters around the error response either
		for _, se := range out.Obs.Sels {
			if se.RID != -1 || se.Path != "" {
				ctx.Violation(ti, "c01:selected-without-invocation", fmt.Sprintf("%s filter saw selected route %d (%q) although no route function runs for this request (status %d)", se.Where, se.RID, se.Path, out.Status), doc("selected"))
			}
		}
		if out.Panicked && strings.Contains(out.Panic, "nil") && strings.Contains(out.Panic, "pointer") && len(out.Obs.Sels) == 0 {
			// the recording filter asks SelectedRoute() != nil before it touches the route: a non-nil answer it cannot use
			ctx.Violation(ti, "c01:selected-without-invocation", fmt.Sprintf("a container filter that guards with SelectedRoute() != nil panicked on a request for which no route function runs: %s", out.Panic), doc("selected"))
		}
		if strings.HasPrefix(req.Class, "near") {
			ctx.Sig(fmt.Sprintf("%s|%s|refused|%s|%d", router, entry, req.Class, out.Status))
			ctx.Count("near_miss_refusals", 1)
		}
		return
	}
	ctx.Count("invocations", len(out.Obs.Invokes))
	for _, iv := range out.Obs.Invokes {
		s, rs := t.Route(iv.RID)
		if rs == nil {
			ctx.Violation(ti, "c01:unknown-route", "a route function ran that is not in the table", doc(""))
			continue
		}
		full := rt.Full(s, rs)
		ctx.Sig(fmt.Sprintf("%s|%s|invoke|%s|%s", router, entry, full.KindShape(), req.Class))
		if req.Method != rs.Method {
			ctx.Violation(ti, "c01:method", fmt.Sprintf("route %s %s ran for method %q", rs.Method, full, req.Method), doc("method"))
		}
		if clean {
			tri, _ := rt.MatchFull(full, tokens)
			switch tri {
			case rt.No:
				ctx.Violation(ti, "c01:path:"+router+":"+full.KindShape(), fmt.Sprintf("route template %s ran for path %q which it does not match", full, req.Path), doc("path"))
			case rt.Unspec:
				ctx.Count("unspecified_skipped", 1)
			default:
				ctx.Count("path_clause_judged", 1)
			}
		} else {
			ctx.Count("unclean_path_skipped", 1)
		}
		if !rt.CTAdmitted(rs, req) {
			ctx.Violation(ti, "c01:content-type", fmt.Sprintf("route consuming %v ran for Content-Type %q (present=%v)", rs.Consumes, req.CT, req.HasCT), doc("content-type"))
		}
		if !rt.AcceptSatisfiable(rs, req) {
			ctx.Violation(ti, "c01:accept", fmt.Sprintf("route producing %v ran for Accept %q (present=%v)", rs.Produces, req.Accept, req.HasAcc), doc("accept"))
		}
		// every If-condition of the invoked route returned true for this request
		if len(rs.Conds) > 0 {
			seen := map[int]bool{}
			for _, ce := range out.Obs.Conds {
				if ce.RID != rs.ID {
					continue
				}
				if !ce.Res {
					ctx.Violation(ti, "c01:cond-false", "route ran although one of its If-conditions returned false", doc("cond"))
				} else {
					seen[ce.Idx] = true
				}
			}
			for k := range rs.Conds {
				if !seen[k] {
					ctx.Violation(ti, "c01:cond-skipped", "route ran although one of its If-conditions was never evaluated to true", doc("cond"))
				}
			}
			ctx.Count("conditional_invocations", 1)
		}
		// selected route as seen by handler and filters
		if iv.SelRID != rs.ID || iv.SelMethod != rs.Method {
			ctx.Violation(ti, "c01:selected-handler", fmt.Sprintf("handler of route %d saw selected route %d (%s %s)", rs.ID, iv.SelRID, iv.SelMethod, iv.SelPath), doc("selected"))
		}
		wantPath := strings.TrimRight(s.Root.String(), "/") + "/" + strings.TrimLeft(rs.Render(), "/")
		if iv.SelPath != wantPath {
			ctx.Violation(ti, "c01:selected-path", fmt.Sprintf("SelectedRoutePath()=%q, route declared %q", iv.SelPath, wantPath), doc("selected"))
		}
		for _, se := range out.Obs.Sels {
			if strings.HasPrefix(se.Where, "route:") && se.Where != fmt.Sprintf("route:%d", rs.ID) {
				ctx.Violation(ti, "c01:foreign-route-filter", fmt.Sprintf("filter %s ran for a request handled by route %d", se.Where, rs.ID), doc("selected"))
			}
			if se.RID != rs.ID {
				ctx.Violation(ti, "c01:selected-filter", fmt.Sprintf("%s filter saw selected route %d while route %d ran", se.Where, se.RID, rs.ID), doc("selected"))
			}
		}
		ctx.Count("filter_sel_events", len(out.Obs.Sels))
	}
	if ctx.WantSample() {
		ctx.Sample(map[string]interface{}{"router": router, "entry": entry, "request": req, "invoked": out.Obs.Invokes, "tables_routes": t.NumRoutes()})
	}
}

// c02: totality and exact error classes.
func c02(ctx *core.Ctx) {
	quietLogs()
	defer restful.DefaultRequestContentType("")
	ctx.Rule("same generators as C01 plus an adversarial path/header pool and extension methods (LOCK, UNLOCK, FIND, PROPFIND, OPTIONS routes). Each request is dispatched with trace logging off and on; every 3rd table replays its requests from 8 concurrent goroutines. Oracle: no panic, at most one invocation, outcome class (invoke/404/405+Allow/415/406) is one admitted by the reference staged elimination (best root under literal>variable and longer>prefix, weak mode when roots are incomparable or a variable root competes under RouterJSR311). Non-trivial = a judged request; distinct by (router, request class, reference stage, outcome class).")
	ctx.Assume("cases whose classification depends on an unspecified match are counted in unspecified_skipped and get a totality verdict only",
		"ServeHTTP is judged for totality only: net/http's mux rewrites unclean paths (DESIGN §4.9)")
	tables := ctx.N(4000, 400000)
	perTable := ctx.N(40, 60)
	if !ctx.Quick() {
		perTable = 60
	}
	defer restful.EnableTracing(false)
	for ti := 0; ti < tables; ti++ {
		if ctx.Skip(ti) {
			continue
		}
		router := routerOf(ti)
		if m := ti % 40; m >= 7 && m <= 13 {
			router = routerOf(ti / 40) // the special table shapes below take turns on both routers
		}
		r := ctx.Rand(ti, "table")
		o := fullGenOpts(router)
		o.OddMethods = true
		o.Twins = true
		switch ti % 40 {
		case 9:
			o.MaxRoutes, o.MaxSvcs = 60, 4 // "template/route counts may be arbitrary"
		case 10:
			o.Nested, o.MinSvcs, o.VarRoots = true, 3, false
		case 11:
			oddTemplates(ctx, ti, "curly")
			oddTemplates(ctx, ti, "jsr311")
		}
		if m := ti % 40; m == 14 || m == 15 {
			// table shapes beyond what the small tables reach (long templates, 33-40 services, long media lists, many conditions, 130 routes)
			ctx.SetAdd("scaled_table_shapes", rt.Scale(&o, ti/40))
		} else if m == 16 || m == 17 {
			// services with up to 130 routes on a handful of colliding paths get a share of their own (many candidates per request)
			ctx.SetAdd("scaled_table_shapes", rt.Scale(&o, 4))
		} else if m == 18 || m == 19 {
			// and so do templates of 10-18 / 10-40 / 10-70 segments (plain and with skewed literal lengths)
			ctx.SetAdd("scaled_table_shapes", rt.Scale(&o, 5*(ti/40)))
		}
		t := rt.GenTable(r, o)
		emptied := ""
		switch ti % 40 {
		case 10:
			// the WebService with the longest (most specific) root has no routes at the moment: it still owns its URLs
			best := 0
			for i := range t.Svcs {
				if len(t.Svcs[i].Root) > len(t.Svcs[best].Root) {
					best = i
				}
			}
			if len(t.Svcs[best].Root) > 0 {
				t.Svcs[best].Routes = nil
				emptied = t.Svcs[best].Root.String()
				ctx.Count("tables_with_emptied_most_specific_service", 1)
			}
		}
		switch ti % 40 {
		case 7:
			t.Svcs = nil // a container without any WebService
			ctx.Count("tables_without_services", 1)
		case 8:
			t.Svcs[0].Routes = nil // a WebService without routes
			ctx.Count("tables_with_routeless_service", 1)
		case 9:
			ctx.Max("max_routes_in_a_table", t.NumRoutes())
		}
		ctx.Case(ti, "router="+router+" table="+core.JSON(t))
		bo := rt.DefaultBuild(router)
		bo.Switched = ti%8 == 2 || ti%8 == 5
		bo.Default = ti == 0
		bo.Dynamic = ti%40 == 12 || ti%40 == 13
		bo.SelFilters = ti%3 == 1 // application filters at all three levels that look at the selected route (guarded by != nil)
		c, wss := rt.BuildWS(t, bo)
		if bo.Dynamic {
			// the route table was arrived at by RemoveRoute on registered WebServices: further representations of an
			// existing route are registered next to each other, then that resource (method, path) is removed again
			er := ctx.Rand(ti, "edit")
			for round := 0; round < 3; round++ {
				si := er.Intn(len(t.Svcs))
				svc := &t.Svcs[si]
				if len(svc.Routes) == 0 || wss[si] == nil {
					continue
				}
				victim := svc.Routes[er.Intn(len(svc.Routes))]
				copies := er.Intn(4) // 0..3 further routes with the victim's method and path
				for k := 0; k < copies; k++ {
					nr := victim
					nr.ID = 9000 + 10*round + k
					nr.Produces = []string{er.Pick(rt.Medias)}
					nr.ViaSvc = false
					svc.Routes = append(svc.Routes, nr)
					rt.AddRoute(wss[si], &svc.Routes[len(svc.Routes)-1], bo)
				}
				gone, err := rt.RemoveRoutesLike(wss[si], svc, victim.ID)
				ctx.Count("routes_removed_by_RemoveRoute", len(gone))
				ctx.Max("max_routes_removed_by_one_RemoveRoute", len(gone))
				if err != nil {
					ctx.Violation(ti, "c02:removeroute-error", "RemoveRoute returned "+err.Error(), caseDoc{Router: router, Table: t})
				}
			}
			ctx.Count("tables_edited_with_RemoveRoute", 1)
		}
		if ti%16 == 6 || ti%16 == 11 {
			restful.DefaultRequestContentType([]string{restful.MIME_JSON, restful.MIME_XML}[(ti/16)%2])
			ctx.Count("tables_with_default_request_content_type", 1)
		} else {
			restful.DefaultRequestContentType("")
		}
		rr := ctx.Rand(ti, "req")
		var reqs []rt.Req
		for qi := 0; qi < perTable; qi++ {
			req := rt.GenReq(rr, t, router)
			if qi%5 == 4 {
				// adversarial pool gets a guaranteed share
				req.Path = rr.Pick([]string{"", "//", "/a//b", "a/b", "/a/b//", "/{x}", "/:", "/a:cancel", "/%2F", "/a/\x00", "/ü", "/a/*}", "/a\n/b", "/\xff\xfe"})
				req.Class = "adv"
			}
			if emptied != "" && qi%2 == 0 {
				req.Path = emptied + "/" + rr.Pick(rt.Literals)
				if qi%4 == 0 {
					req.Path += "/" + rr.Pick(rt.VarVals)
				}
				req.RawPath = ""
				req.Class = "under-emptied-service"
			}
			reqs = append(reqs, req)
			restful.EnableTracing(false)
			out := rt.Run(c, rt.Dispatch, &req)
			before := atomic.LoadInt64(&tap.n)
			restful.EnableTracing(true)
			outT := rt.Run(c, rt.Dispatch, &req)
			restful.EnableTracing(false)
			ctx.Count("trace_lines", int(atomic.LoadInt64(&tap.n)-before))
			ctx.Eval(2)
			if outT.Panicked && !out.Panicked {
				ctx.Violation(ti, "c02:panic-trace:"+router, fmt.Sprintf("Dispatch panicked with tracing on for %s %q: %s", req.Method, req.Path, outT.Panic),
					caseDoc{Router: router, Entry: rt.Dispatch, Table: t, Req: req, Obs: outT, Note: "panic"})
			} else if !out.Panicked && out.Sig() != outT.Sig() {
				ctx.Violation(ti, "c02:trace-differs", "outcome differs with trace logging on: "+out.Sig()+" vs "+outT.Sig(),
					caseDoc{Router: router, Entry: rt.Dispatch, Table: t, Req: req, Obs: outT, Want: out.Sig(), Note: "trace"})
			}
			judgeC02(ctx, ti, t, router, "", &req, out)
			// totality through ServeHTTP on clean paths
			if _, clean := rt.Tokens(req.Path); clean && qi%3 == 0 {
				o2 := rt.Run(c, rt.ServeHTTP, &req)
				ctx.Eval(1)
				if o2.Panicked {
					ctx.Violation(ti, "c02:panic-servehttp:"+router, "ServeHTTP panicked: "+o2.Panic, caseDoc{Router: router, Entry: rt.ServeHTTP, Table: t, Req: req, Obs: o2})
				} else if len(o2.Obs.Invokes) > 1 {
					ctx.Violation(ti, "c02:multi-invoke-servehttp", "more than one route function ran", caseDoc{Router: router, Entry: rt.ServeHTTP, Table: t, Req: req, Obs: o2})
				}
			}
		}
		if ti%3 == 0 {
			concurrentBatch(c, rt.Dispatch, reqs, 8, func(i int, out *rt.Outcome) {
				ctx.Eval(1)
				ctx.Count("concurrent_requests", 1)
				judgeC02(ctx, ti, t, router, "-concurrent", &reqs[i], out)
			})
		}
	}
}

// oddTemplates: route paths whose colon tails are not custom verbs (":c++", ":a(b", ":[", ":v2"). What such a template
// matches is not specified - that dispatching never panics is (C02's totality clause holds for every route table).
func oddTemplates(ctx *core.Ctx, ti int, router string) {
	c := restful.NewContainer()
	if router == "jsr311" {
		c.Router(restful.RouterJSR311{})
	}
	n := 0
	ws := new(restful.WebService).Path("/odd")
	for _, p := range []string{"/{id}:c++", "/x:a(b", "/{v}:[", "/{w:[a-z]+}:v2", "/lit:1+1", "/{z}:*", "/a/{id}:c++/b", "/{q}:\\"} {
		ws.Route(ws.GET(p).To(func(req *restful.Request, resp *restful.Response) { n++; resp.WriteHeader(200) }))
	}
	c.Add(ws)
	for _, path := range []string{"/odd/abc", "/odd/abc:c++", "/odd/x:a(b", "/odd/q:[", "/odd/ab:v2", "/odd/lit:1+1", "/odd/z:*", "/odd/a/7:c++/b", "/odd/q:\\", "/odd/:c++", "/odd/c", "/odd/abc:c+"} {
		for _, tr := range []bool{false, true} {
			setTracing(tr, ti/2)
			n = 0
			req := rt.Req{Method: "GET", Path: path}
			out := rt.Run(c, rt.Dispatch, &req)
			restful.EnableTracing(false)
			ctx.Eval(1)
			ctx.Count("odd_template_probes", 1)
			if out.Panicked {
				ctx.Violation(ti, "c02:panic-odd-template:"+router, fmt.Sprintf("Dispatch panicked for GET %q on a table with odd colon tails: %s", path, out.Panic), map[string]interface{}{"router": router, "path": path, "trace": tr})
			} else if n > 1 {
				ctx.Violation(ti, "c02:multi-invoke-odd-template:"+router, fmt.Sprintf("%d route functions ran for GET %q", n, path), map[string]interface{}{"router": router, "path": path})
			}
		}
	}
}

// judgeC02 applies the totality and exact-class oracle to one observed outcome.
func judgeC02(ctx *core.Ctx, ti int, t *rt.Table, router, mode string, req *rt.Req, out *rt.Outcome) {
	doc := func(want interface{}, note string) caseDoc {
		return caseDoc{Router: router, Entry: rt.Dispatch + mode, Table: t, Req: *req, Obs: out, Want: want, Note: note}
	}
	if out.Panicked {
		ctx.Violation(ti, "c02:panic:"+router, fmt.Sprintf("Dispatch panicked for %s %q: %s", req.Method, req.Path, out.Panic), doc(nil, "panic"))
		return
	}
	if n := len(out.Obs.Invokes); n > 1 {
		ctx.Violation(ti, "c02:multi-invoke", fmt.Sprintf("%d route functions ran for one request", n), doc(nil, "invocations"))
	}
	if out.Rec.WHCalls > 1 {
		ctx.Violation(ti, "c02:two-status-lines", fmt.Sprintf("WriteHeader was called %d times", out.Rec.WHCalls), doc(nil, "status"))
	}
	preds, strong, verdict := rt.Predict(t, req, router)
	if !verdict {
		ctx.Count("unspecified_skipped", 1)
		ctx.SetAdd("totality_only_class", req.Class)
		return
	}
	ctx.Count("class_judged", 1)
	if strong {
		ctx.Count("class_judged_strong", 1)
	}
	cls := out.Class()
	stage := ""
	if len(preds) > 0 {
		stage = preds[0].Stage
	}
	ctx.Sig(fmt.Sprintf("%s|%s|%s|%s", router, req.Class, stage, cls))
	ctx.SetAdd("outcome_class", cls)
	if !rt.Admits(preds, cls, out.RID(), out.Allow) {
		ctx.Violation(ti, "c02:class"+mode+":"+router+":want="+predClasses(preds)+":got="+cls,
			fmt.Sprintf("%s %q (ct=%q accept=%q body=%d) answered %s; reference admits %s", req.Method, req.Path, req.CT, req.Accept, req.BodyLen, out.Sig(), core.JSON(preds)), doc(preds, "class"))
	}
	if cls == rt.Cls405 && len(out.Rec.Hdr()["Allow"]) != 1 {
		ctx.Violation(ti, "c02:allow-header-count", "405 without exactly one Allow header", doc(preds, "allow"))
	}
	if ctx.WantSample() {
		ctx.Sample(map[string]interface{}{"router": router, "request": req, "observed": out.Sig(), "reference": preds})
	}
}

func lastPart(s string) string {
	if i := strings.Index(s, ":"); i >= 0 {
		return s[i+1:]
	}
	return ""
}

func predClasses(p []rt.Pred) string {
	m := map[string]bool{}
	var out []string
	for _, x := range p {
		if !m[x.Class] {
			m[x.Class] = true
			out = append(out, x.Class)
		}
	}
	return strings.Join(out, "/")
}
