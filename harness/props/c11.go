package props

import (
	"fmt"
	"net/http"
	"path"
	"strings"
	"time"

	restful "github.com/emicklei/go-restful/v3"

	"verifharness/core"
	"verifharness/mon"
	"verifharness/rt"
)

func init() { register("C11", c11) }

type mRoute struct {
	ID       int      `json:"id"`
	Method   string   `json:"method"`
	Path     string   `json:"path"`
	Produces []string `json:"produces,omitempty"`
}

type mSvc struct {
	Root    string   `json:"root"`
	Dynamic bool     `json:"dynamic"`
	Routes  []mRoute `json:"routes"`
	ws      *restful.WebService
}

type mHandler struct {
	Pattern    string `json:"pattern"`
	ID         int    `json:"id"`
	WithFilter bool   `json:"with_filter"` // registered through HandleWithFilter
}

type mModel struct {
	Svcs     []*mSvc    `json:"services"`
	Handlers []mHandler `json:"handlers"`
}

var (
	c11Roots    = []string{"/", "/a", "/a/", "/a/b", "/a/b/", "/a/{x}", "/a/{y}", "/a/{x}/b", "/a/{y}/c", "/u/{b}", "/ab", "/{z}", "/u", "/u/", "/u/{a}", "/users/{id}/a", "/users/{id}/b", "/users", "/{p}/{q}", ""}
	c11Patterns = []string{"/static/", "/health", "/files/", "/h1", "/h2/", "/static/img/"}
	c11Paths    = []string{"", "/", "/x", "/{id}", "/x/{id}", "/{id}/y", "x"}
)

func c11RouteFunc(id int) restful.RouteFunction {
	return func(req *restful.Request, resp *restful.Response) {
		resp.AddHeader("X-Rid", fmt.Sprint(id))
		resp.WriteHeader(200)
		fmt.Fprintf(resp, "r%d %v", id, sortedParams(req.PathParameters()))
	}
}

func sortedParams(m map[string]string) string {
	keys := make([]string, 0, len(m))
	for k := range m {
		keys = append(keys, k)
	}
	for i := 1; i < len(keys); i++ {
		for j := i; j > 0 && keys[j] < keys[j-1]; j-- {
			keys[j], keys[j-1] = keys[j-1], keys[j]
		}
	}
	var b strings.Builder
	for _, k := range keys {
		fmt.Fprintf(&b, "%s=%s;", k, m[k])
	}
	return b.String()
}

func c11Handler(id int) http.Handler {
	return http.HandlerFunc(func(w http.ResponseWriter, r *http.Request) {
		w.WriteHeader(200)
		fmt.Fprintf(w, "h%d %s", id, r.URL.Path)
	})
}

func newWS(s *mSvc) *restful.WebService {
	ws := new(restful.WebService)
	ws.Path(s.Root)
	ws.SetDynamicRoutes(s.Dynamic)
	for i := range s.Routes {
		addMRoute(ws, &s.Routes[i])
	}
	return ws
}

func addMRoute(ws *restful.WebService, r *mRoute) {
	b := ws.Method(r.Method).Path(r.Path).To(c11RouteFunc(r.ID))
	if len(r.Produces) > 0 {
		b.Produces(r.Produces...)
	}
	ws.Route(b)
}

func fullPath(root, path string) string {
	if root == "" {
		root = "/"
	}
	return strings.TrimRight(root, "/") + "/" + strings.TrimLeft(path, "/")
}

func newC11Container(router string, options bool) *restful.Container {
	c := restful.NewContainer()
	if router == "jsr311" {
		c.Router(restful.RouterJSR311{})
	}
	if options {
		c.Filter(c.OPTIONSFilter)
	}
	return c
}

func (m *mModel) fresh(router string, options bool) *restful.Container {
	c := newC11Container(router, options)
	for _, s := range m.Svcs {
		c.Add(newWS(s))
	}
	for _, h := range m.Handlers {
		if h.WithFilter {
			c.HandleWithFilter(h.Pattern, c11Handler(h.ID))
		} else {
			c.Handle(h.Pattern, c11Handler(h.ID))
		}
	}
	return c
}

func (m *mModel) probes() []rt.Req {
	seen := map[string]bool{}
	var out []rt.Req
	add := func(method, p string) {
		if !strings.HasPrefix(p, "/") {
			p = "/" + p
		}
		k := method + " " + p
		if !seen[k] {
			seen[k] = true
			out = append(out, rt.Req{Method: method, Path: p})
		}
	}
	inst := func(t string) string {
		// replace {var} by a value
		var b strings.Builder
		for _, seg := range strings.Split(t, "/") {
			if strings.HasPrefix(seg, "{") {
				seg = "v7"
			}
			b.WriteString(seg + "/")
		}
		s := strings.TrimRight(b.String(), "/")
		if s == "" {
			s = "/"
		}
		return s
	}
	for _, r := range c11Roots {
		base := inst(r)
		if base == "" {
			base = "/"
		}
		for _, suffix := range []string{"", "/x", "/42", "/x/42", "/42/y", "/zzz/zzz/zzz"} {
			p := strings.TrimRight(base, "/") + suffix
			if p == "" {
				p = "/"
			}
			add("GET", p)
			add("POST", p)
		}
		add("OPTIONS", strings.TrimRight(base, "/")+"/x")
		add("DELETE", strings.TrimRight(base, "/")+"/x")
	}
	for _, p := range c11Patterns {
		add("GET", p)
		add("GET", p+"sub")
	}
	add("GET", "/nope")
	return out
}

// muxOwner is the executable reference of who answers a clean path p on the container's ServeMux: "framework" (a pattern
// the container registered for a WebService: the fixed prefix of its root path and that prefix + "/", or "/" for a root that
// is "/" or starts with a variable, after which later services register nothing), "handler" (a pattern given to Handle),
// "redirect" (net/http answers 301 because only p+"/" is a pattern) or "none" (net/http's own 404). Most specific pattern wins.
func muxOwner(roots []string, handlers []string, p string) string {
	owner := map[string]string{}
	for _, h := range handlers {
		owner[h] = "handler"
	}
	onRoot := false
	for _, root := range roots {
		if onRoot {
			break
		}
		if root == "" {
			root = "/"
		}
		fixed := root
		if k := strings.Index(root, "{"); k >= 0 {
			fixed = root[:k]
		}
		if fixed == "/" || fixed == "" {
			owner["/"] = "framework"
			onRoot = true
			continue
		}
		owner[fixed] = "framework"
		if !strings.HasSuffix(fixed, "/") {
			owner[fixed+"/"] = "framework"
		}
	}
	if o, ok := owner[p]; ok {
		return o
	}
	if !strings.HasSuffix(p, "/") {
		if _, ok := owner[p+"/"]; ok {
			return "redirect"
		}
	}
	best, who := "", "none"
	for pat, o := range owner {
		if strings.HasSuffix(pat, "/") && strings.HasPrefix(p, pat) && len(pat) > len(best) {
			best, who = pat, o
		}
	}
	return who
}

func respSig(o *rt.Outcome) string {
	if o.Panicked {
		return "panic: " + o.Panic
	}
	return fmt.Sprintf("status=%d hdr[%s] body=%q", o.Status, headerSig(o.Rec.Hdr()), o.Rec.Body.String())
}

var c11DefaultMuxUsed bool

// c11DefaultMux: once per process, a container that sits on http.DefaultServeMux (as the package-level container does).
// The model follows what the calls report: a Remove that returns an error has removed nothing.
func c11DefaultMux(ctx *core.Ctx) {
	if c11DefaultMuxUsed {
		return
	}
	c11DefaultMuxUsed = true
	c := restful.NewContainer()
	c.ServeMux = http.DefaultServeMux
	mk := func(root string, id int) *restful.WebService {
		ws := new(restful.WebService).Path(root)
		ws.Route(ws.GET("/x").To(c11RouteFunc(id)))
		return ws
	}
	type svc struct {
		root string
		id   int
	}
	var model []svc
	var log []string
	step := func(desc string, f func()) (pan interface{}) {
		log = append(log, desc)
		defer func() { pan = recover() }()
		f()
		return nil
	}
	fail := func(sig, what string) {
		ctx.Violation(-1, sig, fmt.Sprintf("container on http.DefaultServeMux, after %v: %s", log, what), map[string]interface{}{"history": log})
	}
	a, b := mk("/dmux-a", 9001), mk("/dmux-b", 9002)
	for _, w := range []struct {
		ws *restful.WebService
		s  svc
	}{{a, svc{"/dmux-a", 9001}}, {b, svc{"/dmux-b", 9002}}} {
		w := w
		if p := step("Add("+w.s.root+")", func() { c.Add(w.ws) }); p != nil {
			fail("c11:op-panics:Add:default-mux", fmt.Sprintf("Add panicked: %v", p))
			return
		}
		model = append(model, w.s)
	}
	compare := func() bool {
		fresh := restful.NewContainer()
		for _, s := range model {
			fresh.Add(mk(s.root, s.id))
		}
		for _, p := range []string{"/dmux-a/x", "/dmux-b/x", "/dmux-a/nope", "/dmux-c/x"} {
			for _, entry := range []string{rt.ServeHTTP, rt.Dispatch} {
				req := rt.Req{Method: "GET", Path: p}
				x, y := respSig(rt.Run(c, entry, &req)), respSig(rt.Run(fresh, entry, &req))
				ctx.Eval(2)
				if x != y {
					fail("c11:differs:"+entry+":default-mux", fmt.Sprintf("GET %s via %s -> %s, a fresh container with %v answers %s", p, entry, x, model, y))
					return false
				}
			}
		}
		return true
	}
	if !compare() {
		return
	}
	var err error
	if p := step("Remove(/dmux-a)", func() { err = c.Remove(a) }); p != nil {
		fail("c11:op-panics:Remove:default-mux", fmt.Sprintf("Remove panicked: %v", p))
		return
	}
	if err == nil {
		model = model[1:] // the call reports success: the service is gone
		log[len(log)-1] += " = nil"
	} else {
		log[len(log)-1] += " = error (refused)"
	}
	if !compare() {
		return
	}
	if err == nil {
		// removed, so its root path is free again
		if p := step("Add(/dmux-a) again", func() { c.Add(mk("/dmux-a", 9003)) }); p != nil {
			fail("c11:op-panics:Add:default-mux", fmt.Sprintf("Add of a root path that was removed before panicked: %v", p))
			return
		}
		model = append(model, svc{"/dmux-a", 9003})
		compare()
	}
	ctx.Count("default_servemux_histories", 1)
}

func c11(ctx *core.Ctx) {
	quietLogs()
	if !ctx.Skip(0) {
		c11DefaultMux(ctx)
	}
	ctx.Rule("generated histories of 4-20 operations over {Add, Remove (also repeated), Route, RemoveRoute (also of a route that is not there), Handle, HandleWithFilter, a duplicate Handle whose documented panic the caller survives} on a root-path pool built to collide (/, '', /a, /a/, /a/b, /a/{x}, /a/{x}/b, /a/{y}/c, /ab, /{z}, /u, /u/, /u/{a}, /users/{id}/a, /users/{id}/b, /{p}/{q} ...), dynamic and static services, now and then 33 or 70 further services registered first, duplicate (method,path) routes with different Produces, both routers, with and without the OPTIONS filter; once per process a container on http.DefaultServeMux (Add, Add, Remove - which is refused there - and, if it was not, Add again). After EVERY operation a fresh container is built from the model (new objects, same order) and ~250 probe requests (hits, near misses, handler patterns, strays; GET/POST/OPTIONS/DELETE) are answered via ServeHTTP and Dispatch by both; complete responses must be equal. Add/Handle must not panic. Non-trivial = a history prefix containing a Remove/RemoveRoute or >= 2 services; distinct by (operation kind, number of services, root-on-'/' present, handlers present, router).")
	ctx.Assume("histories never add a duplicate root path (the library exits by contract) and never register a handler pattern twice")
	hists := ctx.N(250, 20000)
	nextID := 0
	for hi := 0; hi < hists; hi++ {
		if ctx.Skip(hi) {
			continue
		}
		r := ctx.Rand(hi, "hist")
		router := routerOf(hi)
		options := hi%3 == 0
		m := &mModel{}
		c := newC11Container(router, options)
		nops := r.Range(4, 20)
		// every 6th history: a plain handler may sit on "/" itself; such a history adds no root-mapped WebService
		plainRoot := hi%12 == 5 || hi%12 == 10
		var opsLog []string
		ctx.Case(hi, fmt.Sprintf("router=%s options=%v", router, options))
		probes := m.probes()
		seenURL := map[string]bool{}
		for _, pr := range probes {
			seenURL[pr.Method+" "+pr.Path] = true
		}
		instPath := func(t string) string {
			segs := strings.Split(t, "/")
			for i, sg := range segs {
				if strings.HasPrefix(sg, "{") {
					segs[i] = "v7"
				}
			}
			return strings.Join(segs, "/")
		}
		if hi%50 == 7 || hi%50 == 32 {
			// a wide container: 33 or 70 WebServices are registered before the history proper starts
			wide := []int{33, 70}[r.Intn(2)]
			for i := 0; i < wide; i++ {
				root := fmt.Sprintf("/m%d", i)
				switch i % 7 {
				case 3:
					root += "/{x}"
				case 5:
					root = fmt.Sprintf("/m%d/sub", i-1) // nests below its neighbour
				}
				nextID++
				s := &mSvc{Root: root, Dynamic: i%2 == 0, Routes: []mRoute{{ID: nextID, Method: "GET", Path: r.Pick(c11Paths)}}}
				s.ws = newWS(s)
				m.Svcs = append(m.Svcs, s)
				c.Add(s.ws)
			}
			opsLog = append(opsLog, fmt.Sprintf("Add x %d (/m0 ... /m%d)", wide, wide-1))
			ctx.Count("wide_histories", 1)
		}
		for oi := 0; oi < nops; oi++ {
			// choose an applicable operation
			kind := ""
			for kind == "" {
				switch k := r.Intn(10); {
				case k < 3:
					if len(m.Svcs) < 7 {
						kind = "Add"
					}
				case k < 5:
					if len(m.Svcs) > 0 {
						kind = "Remove"
					}
				case k < 7:
					if len(m.Svcs) > 0 {
						kind = "Route"
					}
				case k < 9:
					for _, s := range m.Svcs {
						if s.Dynamic && len(s.Routes) > 0 {
							kind = "RemoveRoute"
						}
					}
					if kind == "" || r.Chance(1, 5) {
						for _, s := range m.Svcs {
							if s.Dynamic {
								kind = "RemoveRouteMissing"
							}
						}
					}
				default:
					if len(m.Handlers) < len(c11Patterns) {
						kind = "Handle"
					}
					if plainRoot && oi < 2 {
						kind = "Handle" // early, before most services
					}
					if len(m.Handlers) > 0 && r.Chance(1, 4) {
						kind = "HandleDuplicate"
					}
				}
			}
			var desc string
			var pan interface{}
			opDone := make(chan struct{})
			go func() {
				defer close(opDone)
				defer func() { pan = recover() }()
				switch kind {
				case "Add":
					var root string
					for {
						root = r.Pick(c11Roots)
						dup := false
						if plainRoot && (root == "" || root == "/" || strings.HasPrefix(root, "/{")) {
							continue
						}
						for _, s := range m.Svcs {
							a, b := s.Root, root
							if a == "" {
								a = "/"
							}
							if b == "" {
								b = "/"
							}
							if a == b {
								dup = true
							}
						}
						if !dup {
							break
						}
					}
					s := &mSvc{Root: root, Dynamic: r.Chance(2, 3)}
					for j := 0; j < r.Range(0, 3); j++ {
						nextID++
						mr := mRoute{ID: nextID, Method: r.Pick([]string{"GET", "GET", "POST"}), Path: r.Pick(c11Paths)}
						if r.Chance(1, 3) {
							mr.Produces = []string{r.Pick([]string{restful.MIME_JSON, restful.MIME_XML})}
						}
						s.Routes = append(s.Routes, mr)
					}
					desc = fmt.Sprintf("Add(%q dynamic=%v routes=%v)", root, s.Dynamic, s.Routes)
					opsLog = append(opsLog, desc)
					s.ws = newWS(s)
					m.Svcs = append(m.Svcs, s)
					c.Add(s.ws)
				case "Remove":
					i := r.Intn(len(m.Svcs))
					desc = fmt.Sprintf("Remove(%q)", m.Svcs[i].Root)
					opsLog = append(opsLog, desc)
					ws := m.Svcs[i].ws
					if r.Chance(1, 3) {
						// Remove identifies the service by its root path: an equal WebService built anew will do
						ws = new(restful.WebService).Path(m.Svcs[i].Root)
						desc += " [by an equal WebService built anew]"
						opsLog[len(opsLog)-1] = desc
					}
					m.Svcs = append(m.Svcs[:i:i], m.Svcs[i+1:]...)
					if err := c.Remove(ws); err != nil {
						panic(err)
					}
					if r.Chance(1, 4) {
						// a repeated clean-up: removing what is no longer registered changes nothing
						opsLog = append(opsLog, desc+" again")
						if err := c.Remove(ws); err != nil {
							panic(err)
						}
					}
				case "Route":
					s := m.Svcs[r.Intn(len(m.Svcs))]
					nextID++
					mr := mRoute{ID: nextID, Method: r.Pick([]string{"GET", "GET", "POST"}), Path: r.Pick(c11Paths)}
					if len(s.Routes) > 0 && r.Chance(1, 3) {
						// a twin of an existing route: same method and path, other representation
						src := s.Routes[r.Intn(len(s.Routes))]
						mr.Method, mr.Path = src.Method, src.Path
						mr.Produces = []string{r.Pick([]string{restful.MIME_JSON, restful.MIME_XML, "text/plain"})}
					} else if len(s.Routes) > 0 && r.Chance(1, 4) {
						// a sub path that repeats the service's own prefix: relative path == full path of an existing route
						src := s.Routes[r.Intn(len(s.Routes))]
						mr.Method, mr.Path = src.Method, fullPath(s.Root, src.Path)
					}
					desc = fmt.Sprintf("Route(%q, %s %q produces=%v id=%d)", s.Root, mr.Method, mr.Path, mr.Produces, mr.ID)
					opsLog = append(opsLog, desc)
					s.Routes = append(s.Routes, mr)
					addMRoute(s.ws, &s.Routes[len(s.Routes)-1])
				case "RemoveRoute":
					var cands []*mSvc
					for _, s := range m.Svcs {
						if s.Dynamic && len(s.Routes) > 0 {
							cands = append(cands, s)
						}
					}
					s := cands[r.Intn(len(cands))]
					victim := s.Routes[r.Intn(len(s.Routes))]
					fp := fullPath(s.Root, victim.Path)
					desc = fmt.Sprintf("RemoveRoute(%q, %q, %s)", s.Root, fp, victim.Method)
					opsLog = append(opsLog, desc)
					var keep []mRoute
					for _, x := range s.Routes {
						if x.Method == victim.Method && fullPath(s.Root, x.Path) == fp {
							continue
						}
						keep = append(keep, x)
					}
					s.Routes = keep
					if err := s.ws.RemoveRoute(fp, victim.Method); err != nil {
						panic(err)
					}
				case "RemoveRouteMissing":
					var cands []*mSvc
					for _, s := range m.Svcs {
						if s.Dynamic {
							cands = append(cands, s)
						}
					}
					s := cands[r.Intn(len(cands))]
					fp := fullPath(s.Root, "/no-such-route")
					desc = fmt.Sprintf("RemoveRoute(%q, %q, GET) [not registered; %d routes]", s.Root, fp, len(s.Routes))
					opsLog = append(opsLog, desc)
					if err := s.ws.RemoveRoute(fp, "GET"); err != nil {
						panic(err)
					}
				case "HandleDuplicate":
					// documented: "If a handler already exists for pattern, Handle panics." A caller that survives the
					// panic has registered nothing; the container must go on like one that never saw the call.
					h := m.Handlers[r.Intn(len(m.Handlers))]
					desc = fmt.Sprintf("Handle(%q) again [panics by contract, recovered by the caller]", h.Pattern)
					opsLog = append(opsLog, desc)
					func() {
						defer func() { recover() }()
						c.Handle(h.Pattern, c11Handler(999999))
					}()
				case "Handle":
					var pat string
					for {
						pat = r.Pick(c11Patterns)
						if plainRoot && r.Chance(1, 2) {
							pat = "/"
						}
						dup := false
						for _, h := range m.Handlers {
							if h.Pattern == pat {
								dup = true
							}
						}
						if !dup {
							break
						}
					}
					nextID++
					wf := r.Chance(1, 2)
					desc = fmt.Sprintf("Handle(%q id=%d withFilter=%v)", pat, nextID, wf)
					opsLog = append(opsLog, desc)
					m.Handlers = append(m.Handlers, mHandler{pat, nextID, wf})
					if wf {
						c.HandleWithFilter(pat, c11Handler(nextID))
					} else {
						c.Handle(pat, c11Handler(nextID))
					}
				}
			}()
			// a registration call that never returns: decided by goroutine state, the watchdog only says when to look
			if blocked, timedOut := mon.WaitQuiescent(opDone, 40*time.Second); timedOut {
				if len(blocked) > 0 {
					ctx.Violation(hi, "c11:op-blocks:"+kind, fmt.Sprintf("after %v: %s never returned, parked in %s", opsLog, kind, blocked[0].Frame),
						map[string]interface{}{"router": router, "history": opsLog, "blocked": blocked})
				} else {
					ctx.Inconclusive("a registration call did not return and no blocked go-restful frame was found: " + kind)
				}
				return
			}
			ctx.Eval(1)
			// every route URL the history has ever declared stays in the probe set (also after its removal)
			for _, sv := range m.Svcs {
				for _, rr := range sv.Routes {
					u := instPath(fullPath(sv.Root, rr.Path))
					for _, method := range []string{"GET", "POST"} {
						if k := method + " " + u; !seenURL[k] && strings.HasPrefix(u, "/") {
							seenURL[k] = true
							probes = append(probes, rt.Req{Method: method, Path: u})
						}
					}
				}
			}
			doc := map[string]interface{}{"router": router, "options_filter": options, "history": opsLog, "model": m}
			if pan != nil {
				ctx.Violation(hi, "c11:op-panics:"+kind, fmt.Sprintf("%s panicked: %v", desc, pan), doc)
				break
			}
			hasRoot := false
			for _, s := range m.Svcs {
				if s.Root == "/" || s.Root == "" || strings.HasPrefix(s.Root, "/{") {
					hasRoot = true
				}
			}
			ctx.Sig(fmt.Sprintf("%s|svcs=%d|root=%v|handlers=%v|%s", kind, len(m.Svcs), hasRoot, len(m.Handlers) > 0, router))
			// fresh container with the same content
			var fresh *restful.Container
			func() {
				defer func() { pan = recover() }()
				fresh = m.fresh(router, options)
			}()
			if pan != nil {
				ctx.Violation(hi, "c11:fresh-build-panics", fmt.Sprintf("building a fresh container with the same services panicked: %v", pan), doc)
				break
			}
			bad := false
			var roots, patterns []string
			for _, sv := range m.Svcs {
				roots = append(roots, sv.Root)
			}
			for _, h := range m.Handlers {
				patterns = append(patterns, h.Pattern)
			}
			for pi := range probes {
				// "through ServeHTTP and through Dispatch": where the container's own ServeMux patterns own the URL, the
				// two entry points give the same answer (reachable through one means reachable through the other)
				if pp := probes[pi].Path; (path.Clean(pp) == pp || path.Clean(pp)+"/" == pp) && muxOwner(roots, patterns, pp) == "framework" {
					viaMux := rt.Run(c, rt.ServeHTTP, &probes[pi])
					direct := rt.Run(c, rt.Dispatch, &probes[pi])
					ctx.Eval(2)
					ctx.Count("probes_compared_across_entry_points", 1)
					if sa, sb := respSig(viaMux), respSig(direct); sa != sb {
						d := doc
						d["probe"] = probes[pi]
						d["via_servehttp"] = sa
						d["via_dispatch"] = sb
						ctx.Violation(hi, "c11:entry-points-differ:after="+kind, fmt.Sprintf("after %v: %s %s -> %s via ServeHTTP but %s via Dispatch, although the container's ServeMux patterns own that URL", opsLog, probes[pi].Method, probes[pi].Path, sa, sb), d)
						bad = true
						break
					}
				}
				for _, entry := range []string{rt.ServeHTTP, rt.Dispatch} {
					a := rt.Run(c, entry, &probes[pi])
					b := rt.Run(fresh, entry, &probes[pi])
					ctx.Eval(2)
					if sa, sb := respSig(a), respSig(b); sa != sb {
						d := doc
						d["probe"] = probes[pi]
						d["entry"] = entry
						d["history_built"] = sa
						d["fresh_built"] = sb
						ctx.Violation(hi, fmt.Sprintf("c11:differs:%s:after=%s", entry, kind), fmt.Sprintf("after %v: %s %s via %s -> %s on the history-built container but %s on a fresh one", opsLog, probes[pi].Method, probes[pi].Path, entry, sa, sb), d)
						bad = true
						break
					}
				}
				if bad {
					break
				}
			}
			ctx.Count("prefixes_compared", 1)
			if bad {
				break
			}
		}
		if ctx.WantSample() && len(opsLog) > 6 {
			ctx.Sample(map[string]interface{}{"router": router, "history": opsLog})
		}
	}
}
