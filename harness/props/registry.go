// Package props holds one workload + oracle per property.
package props

import "verifharness/core"

// Registry maps a property id to its workload.
var Registry = map[string]func(*core.Ctx){}

func register(id string, fn func(*core.Ctx)) { Registry[id] = fn }
