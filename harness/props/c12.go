package props

import (
	"fmt"
	"net/http"
	"runtime"
	"sort"
	"strconv"
	"strings"
	"sync"
	"sync/atomic"
	"time"

	"github.com/anishathalye/porcupine"
	restful "github.com/emicklei/go-restful/v3"

	"verifharness/core"
	"verifharness/mon"
	"verifharness/rt"
)

func init() { register("C12", c12) }

const (
	opRead = iota
	opAdd
	opRemove
)

type regIn struct {
	Key  string
	Kind int
	Gen  int
}

// regModel: per key a register over {0 = absent, gen}. Unique generations make a read identify its write.
var regModel = porcupine.Model{
	Partition: func(history []porcupine.Operation) [][]porcupine.Operation {
		m := map[string][]porcupine.Operation{}
		var keys []string
		for _, op := range history {
			k := op.Input.(regIn).Key
			if _, ok := m[k]; !ok {
				keys = append(keys, k)
			}
			m[k] = append(m[k], op)
		}
		sort.Strings(keys)
		out := make([][]porcupine.Operation, 0, len(keys))
		for _, k := range keys {
			out = append(out, m[k])
		}
		return out
	},
	Init: func() interface{} { return 0 },
	Step: func(state, input, output interface{}) (bool, interface{}) {
		in := input.(regIn)
		switch in.Kind {
		case opAdd:
			return true, in.Gen
		case opRemove:
			return true, 0
		}
		if output.(int) == presentSomeGen {
			// a read that only tells "registered" (the OPTIONS filter listing GET for the URL), not which generation
			return state.(int) != 0, state
		}
		return output.(int) == state.(int), state
	},
	Equal: func(a, b interface{}) bool { return a.(int) == b.(int) },
	DescribeOperation: func(input, output interface{}) string {
		in := input.(regIn)
		switch in.Kind {
		case opAdd:
			return fmt.Sprintf("add(%s,gen=%d)", in.Key, in.Gen)
		case opRemove:
			return fmt.Sprintf("remove(%s)", in.Key)
		}
		return fmt.Sprintf("read(%s)->%d", in.Key, output.(int))
	},
}

const presentSomeGen = -7

type histRec struct {
	mu  sync.Mutex
	ops []porcupine.Operation
}

func (h *histRec) add(op porcupine.Operation) {
	h.mu.Lock()
	h.ops = append(h.ops, op)
	h.mu.Unlock()
}

func genHandler(gen int) restful.RouteFunction {
	body := []byte("g" + strconv.Itoa(gen))
	return func(req *restful.Request, resp *restful.Response) {
		resp.WriteHeader(200)
		resp.Write(body)
	}
}

func yieldCond(r *http.Request) bool {
	runtime.Gosched() // a suspension point inside route selection, under the container's read lock
	return true
}

type c12Round struct {
	Router   string `json:"router"`
	Entry    string `json:"entry"`
	Mutators int    `json:"mutators"`
	Readers  int    `json:"readers"`
	OpsPer   int    `json:"ops_per_key"`
}

func c12(ctx *core.Ctx) {
	quietLogs()
	defer restful.EnableTracing(false)
	ctx.Rule("rounds of W mutator goroutines (each owns one WebService key /k<i>: Add/Remove of a fresh WebService, and one route key /d<i>/r/{id:regex}: Route/RemoveRoute on its own dynamic-routes service (empty whenever the route is withdrawn) and a third key /dyn/s<i>/{id:regex} on the dynamic-routes service all mutators share, and a fourth key /mk<i>/r whose single route changes its method M<gen> with every generation (read off the Allow header of a 405), each generation with another regular expression; an OPTIONS filter and 0-5 further container filters are installed, every service has a filter of its own (each 200 answer must carry exactly its own chain) and readers also send OPTIONS (whether the filter lists GET for the URL is a read of the key, too); Remove and RemoveRoute are now and then repeated for something no longer registered; handlers return a unique generation) and R reader goroutines probing dynamic and stable URLs; both routers x {ServeHTTP, Dispatch}; every fourth round with trace logging on; in half of the rounds panic recovery is on and a stable route has an If-condition that panics for marked requests (readers send some); yields injected through If-conditions (inside the read-locked selection) and a container filter. Monitors: Go race detector; client-boundary history {op, key, gen, call, return} checked by porcupine per key against a register over {absent, gen}; stable URLs must always get their fixed answer; panics; blocked-goroutine state detector. Non-trivial = a read that overlapped a write of its own key; distinct by (round configuration, key, observed value class).")
	ctx.Assume("schedules are not reproducible: evidence reports the overlap actually observed", "a porcupine timeout is inconclusive, never a violation")
	rounds := ctx.N(64, 6000)
	var totalOps, totalOverlap, partitions int
	for ri := 0; ri < rounds; ri++ {
		if ctx.Skip(ri) {
			continue
		}
		rd := c12Round{Router: routerOf(ri), Entry: rt.Dispatch, Mutators: 4, Readers: 8, OpsPer: 40}
		if (ri/2)%2 == 1 {
			rd.Entry = rt.ServeHTTP
		}
		if !ctx.Quick() {
			r := ctx.Rand(ri, "round")
			rd.Mutators = r.Range(2, 8)
			rd.Readers = r.Range(2, 12)
			rd.OpsPer = r.Range(20, 60)
			if r.Chance(1, 10) {
				rd.Mutators, rd.OpsPer = []int{12, 20}[r.Intn(2)], 15 // many writers, fewer steps each
			}
		} else if ri%8 == 5 || ri%8 == 6 {
			rd.Mutators, rd.OpsPer = 12, 15
		}
		ctx.Case(ri, core.JSON(rd))
		// every fourth round with trace logging on (the trace lines are produced while routes change)
		restful.EnableTracing(ri%4 == 3 || ri%8 == 4)
		c := restful.NewContainer()
		if rd.Router == "jsr311" {
			c.Router(restful.RouterJSR311{})
		}
		c.Filter(func(req *restful.Request, resp *restful.Response, chain *restful.FilterChain) {
			runtime.Gosched() // between selection and the route function
			chain.ProcessFilter(req, resp)
		})
		// 1-7 container filters in all (with the OPTIONS filter below), and a filter of its own on every service: each
		// request composes its chain from the three levels while other requests do the same
		ownerFilter := func(owner string) restful.FilterFunction {
			return func(req *restful.Request, resp *restful.Response, chain *restful.FilterChain) {
				resp.AddHeader("X-Filtered-By", owner)
				chain.ProcessFilter(req, resp)
			}
		}
		for i := 0; i < ri%6; i++ {
			c.Filter(ownerFilter("container"))
		}
		stable := new(restful.WebService).Path("/stable")
		stable.Filter(ownerFilter("/stable"))
		for i := 0; i < 3; i++ {
			body := fmt.Sprintf("stable-%d", i)
			stable.Route(stable.GET(fmt.Sprintf("/s%d", i)).To(func(req *restful.Request, resp *restful.Response) {
				resp.WriteHeader(200)
				resp.Write([]byte(body))
			}))
		}
		faulty := ri%4 == 1 || ri%4 == 2
		if faulty {
			// an application whose If-condition panics for some requests, with panic recovery switched on: whatever the answer to
			// such a request is, route selection must not stay "in progress" for ever after - registration goes on
			c.DoNotRecover(false)
			c.RecoverHandler(func(v interface{}, w http.ResponseWriter) { w.WriteHeader(500) })
			stable.Route(stable.GET("/faulty").If(func(r *http.Request) bool {
				if r.Header.Get("X-Fault") != "" {
					panic("condition panics")
				}
				return true
			}).To(func(req *restful.Request, resp *restful.Response) { resp.Write([]byte("faulty")) }))
		}
		c.Add(stable)
		dyn := new(restful.WebService).Path("/dyn")
		dyn.Filter(ownerFilter("/dyn"))
		dyn.SetDynamicRoutes(true)
		dyn.Route(dyn.GET("/keep").If(yieldCond).To(func(req *restful.Request, resp *restful.Response) {
			resp.WriteHeader(200)
			resp.Write([]byte("keep"))
		}))
		c.Add(dyn)
		// one dynamic-routes WebService per mutator, EMPTY whenever its single route is withdrawn
		dyns := make([]*restful.WebService, rd.Mutators)
		for m := range dyns {
			dyns[m] = new(restful.WebService).Path(fmt.Sprintf("/d%d", m))
			dyns[m].Filter(ownerFilter(fmt.Sprintf("/d%d", m)))
			dyns[m].SetDynamicRoutes(true)
			c.Add(dyns[m])
		}
		// a fourth key family: per mutator a service whose single route changes its METHOD with every generation
		// ("M<gen>"); readers send DELETE and read the generation off the Allow header of the 405
		mdyns := make([]*restful.WebService, rd.Mutators)
		for m := range mdyns {
			mdyns[m] = new(restful.WebService).Path(fmt.Sprintf("/mk%d", m))
			mdyns[m].Filter(ownerFilter(fmt.Sprintf("/mk%d", m)))
			mdyns[m].SetDynamicRoutes(true)
			c.Add(mdyns[m])
		}
		c.Filter(c.OPTIONSFilter) // OPTIONS requests walk the routes as well

		hist := &histRec{}
		epoch := time.Now()
		now := func() int64 { return int64(time.Since(epoch)) }
		var gen int64
		var stop int32
		var stableBad, filterBad int32
		var firstBad, firstFilterBad atomic.Value
		var panics int32
		var firstPanic atomic.Value

		get := func(path string) (int, string, bool) {
			req := rt.Req{Method: "GET", Path: path}
			o := rt.Run(c, rd.Entry, &req)
			if o.Panicked {
				atomic.AddInt32(&panics, 1)
				firstPanic.Store("GET " + path + ": " + o.Panic)
				return 0, "", false
			}
			if o.Status == 200 {
				// the chain of this request: the container's filters, then the filter of the service that owns the URL
				owner := path
				if k := strings.Index(path[1:], "/"); k >= 0 {
					owner = path[:k+1]
				}
				got := o.Rec.Hdr()["X-Filtered-By"]
				if len(got) != ri%6+1 || got[len(got)-1] != owner {
					atomic.AddInt32(&filterBad, 1)
					firstFilterBad.Store(fmt.Sprintf("GET %s ran the filters %v, its chain is %d container filter(s) and the filter of %s", path, got, ri%6, owner))
				}
			}
			return o.Status, o.Rec.Body.String(), true
		}

		var mwg, rwg sync.WaitGroup
		for m := 0; m < rd.Mutators; m++ {
			mwg.Add(1)
			go func(m int) {
				defer mwg.Done()
				defer func() {
					if p := recover(); p != nil {
						atomic.AddInt32(&panics, 1)
						firstPanic.Store(fmt.Sprintf("mutator %d: %v", m, p))
					}
				}()
				skey := fmt.Sprintf("/k%d", m)
				rkey := fmt.Sprintf("/d%d/r", m)
				rpath := ""
				// a second route key on the SHARED dynamic service: several goroutines change the routes of one WebService
				skey2 := fmt.Sprintf("/dyn/s%d", m)
				spath := ""
				sharedOn := false
				methGen := 0
				var ws *restful.WebService
				routeOn := false
				for i := 0; i < rd.OpsPer; i++ {
					// service key
					if ws == nil {
						g := int(atomic.AddInt64(&gen, 1))
						ws = new(restful.WebService).Path(skey).Filter(ownerFilter(skey))
						ws.Route(ws.GET("/v").If(yieldCond).To(genHandler(g)))
						call := now()
						c.Add(ws)
						hist.add(porcupine.Operation{ClientId: m, Input: regIn{skey, opAdd, g}, Call: call, Output: 0, Return: now()})
					} else {
						call := now()
						c.Remove(ws)
						hist.add(porcupine.Operation{ClientId: m, Input: regIn{skey, opRemove, 0}, Call: call, Output: 0, Return: now()})
						if i%6 == 5 {
							// a repeated clean-up of the same WebService (no longer registered) is harmless
							call = now()
							c.Remove(ws)
							hist.add(porcupine.Operation{ClientId: m, Input: regIn{skey, opRemove, 0}, Call: call, Output: 0, Return: now()})
						}
						ws = nil
					}
					runtime.Gosched()
					// route key
					if !routeOn {
						g := int(atomic.AddInt64(&gen, 1))
						rpath = fmt.Sprintf("/d%d/r/{id:[0-9]{1,%d}}", m, 1+g%9)
						call := now()
						// every generation declares its parameter with another regular expression
						dyns[m].Route(dyns[m].GET(fmt.Sprintf("/r/{id:[0-9]{1,%d}}", 1+g%9)).If(yieldCond).To(genHandler(g)))
						hist.add(porcupine.Operation{ClientId: m, Input: regIn{rkey, opAdd, g}, Call: call, Output: 0, Return: now()})
						routeOn = true
					} else {
						call := now()
						dyns[m].RemoveRoute(rpath, "GET")
						hist.add(porcupine.Operation{ClientId: m, Input: regIn{rkey, opRemove, 0}, Call: call, Output: 0, Return: now()})
						if i%5 == 3 {
							// a repeated clean-up: the route is no longer there, nothing changes
							call = now()
							dyns[m].RemoveRoute(rpath, "GET")
							hist.add(porcupine.Operation{ClientId: m, Input: regIn{rkey, opRemove, 0}, Call: call, Output: 0, Return: now()})
							ctx.Count("RemoveRoute_of_absent_route", 1)
						}
						routeOn = false
					}
					runtime.Gosched()
					// shared-service route key
					if !sharedOn {
						g := int(atomic.AddInt64(&gen, 1))
						spath = fmt.Sprintf("/dyn/s%d/{id:[0-9]{1,%d}}", m, 1+g%9)
						call := now()
						dyn.Route(dyn.GET(fmt.Sprintf("/s%d/{id:[0-9]{1,%d}}", m, 1+g%9)).If(yieldCond).To(genHandler(g)))
						hist.add(porcupine.Operation{ClientId: m, Input: regIn{skey2, opAdd, g}, Call: call, Output: 0, Return: now()})
						sharedOn = true
					} else {
						call := now()
						dyn.RemoveRoute(spath, "GET")
						hist.add(porcupine.Operation{ClientId: m, Input: regIn{skey2, opRemove, 0}, Call: call, Output: 0, Return: now()})
						if i%7 == 5 {
							// the same for the shared service, once with the path of the route just removed, once with another method
							dyn.RemoveRoute(spath, "GET")
							dyn.RemoveRoute(spath, "DELETE")
							ctx.Count("RemoveRoute_of_absent_route", 2)
						}
						sharedOn = false
					}
					runtime.Gosched()
					// method key: withdraw the route of the last generation, then (next step) add one with another method
					mkey := fmt.Sprintf("/mk%d", m)
					if methGen == 0 {
						methGen = int(atomic.AddInt64(&gen, 1))
						call := now()
						mdyns[m].Route(mdyns[m].Method(fmt.Sprintf("M%d", methGen)).Path("/r").To(genHandler(methGen)))
						hist.add(porcupine.Operation{ClientId: m, Input: regIn{mkey, opAdd, methGen}, Call: call, Output: 0, Return: now()})
					} else {
						call := now()
						mdyns[m].RemoveRoute(mkey+"/r", fmt.Sprintf("M%d", methGen))
						hist.add(porcupine.Operation{ClientId: m, Input: regIn{mkey, opRemove, 0}, Call: call, Output: 0, Return: now()})
						methGen = 0
						if i%2 == 1 {
							// straight on to the next generation: two changes in quick succession
							methGen = int(atomic.AddInt64(&gen, 1))
							call = now()
							mdyns[m].Route(mdyns[m].Method(fmt.Sprintf("M%d", methGen)).Path("/r").To(genHandler(methGen)))
							hist.add(porcupine.Operation{ClientId: m, Input: regIn{mkey, opAdd, methGen}, Call: call, Output: 0, Return: now()})
						}
					}
					runtime.Gosched()
				}
			}(m)
		}
		for rdr := 0; rdr < rd.Readers; rdr++ {
			rwg.Add(1)
			go func(rdr int) {
				defer rwg.Done()
				client := 100 + rdr
				n := 0
				for atomic.LoadInt32(&stop) == 0 && n < 900 {
					n++
					if n%5 == 2 {
						// a request that is refused with 405: its Allow header names the methods of ONE registration state
						mk := (n/5 + rdr) % rd.Mutators
						key := fmt.Sprintf("/mk%d", mk)
						dreq := rt.Req{Method: "DELETE", Path: key + "/r"}
						call := now()
						o := rt.Run(c, rd.Entry, &dreq)
						ret := now()
						if o.Panicked {
							atomic.AddInt32(&panics, 1)
							firstPanic.Store("DELETE " + key + "/r: " + o.Panic)
							continue
						}
						val := -2
						switch o.Status {
						case 404:
							val = 0
						case 405:
							if al := rt.ParseAllow(o.Rec.Hdr().Get("Allow")); len(al) == 1 && strings.HasPrefix(al[0], "M") {
								if g, err := strconv.Atoi(al[0][1:]); err == nil {
									val = g
								}
							}
						}
						if val == -2 {
							atomic.AddInt32(&stableBad, 1)
							firstBad.Store(fmt.Sprintf("DELETE %s/r answered status %d Allow %q: neither 404 nor a 405 naming the one method of a registered generation", key, o.Status, o.Rec.Hdr()["Allow"]))
							continue
						}
						ctx.Count("allow_header_reads", 1)
						hist.add(porcupine.Operation{ClientId: client, Input: regIn{key, opRead, 0}, Call: call, Output: val, Return: ret})
						continue
					}
					k := (n + rdr) % (3*rd.Mutators + 2)
					switch {
					case k < 3*rd.Mutators:
						key := fmt.Sprintf("/k%d", k)
						path := key + "/v"
						if k >= 2*rd.Mutators {
							key = fmt.Sprintf("/dyn/s%d", k-2*rd.Mutators)
							path = key + "/7"
						} else if k >= rd.Mutators {
							key = fmt.Sprintf("/d%d/r", k-rd.Mutators)
							path = key + "/7"
						}
						if n%11 == 10 {
							// an OPTIONS request for the same URL (answered by the OPTIONS filter from the current routes)
							oreq := rt.Req{Method: "OPTIONS", Path: path}
							ocall := now()
							o := rt.Run(c, rd.Entry, &oreq)
							oret := now()
							if o.Panicked {
								atomic.AddInt32(&panics, 1)
								firstPanic.Store("OPTIONS " + path + ": " + o.Panic)
							} else {
								// the filter's list is a read of the key as well: GET listed = registered (some generation), not
								// listed = absent - each must have been true at some moment of the request
								val := 0
								for _, m := range rt.ParseAllow(o.Rec.Hdr().Get("Allow")) {
									if m == "GET" {
										val = presentSomeGen
									}
								}
								hist.add(porcupine.Operation{ClientId: client, Input: regIn{key, opRead, 0}, Call: ocall, Output: val, Return: oret})
								ctx.Count("options_list_reads", 1)
							}
							ctx.Count("options_probes", 1)
						}
						call := now()
						status, body, ok := get(path)
						ret := now()
						if !ok {
							continue
						}
						val := -1
						if status == 404 {
							val = 0
						} else if status == 200 && strings.HasPrefix(body, "g") {
							val, _ = strconv.Atoi(body[1:])
						}
						if val < 0 {
							atomic.AddInt32(&stableBad, 1)
							firstBad.Store(fmt.Sprintf("GET %s answered status %d body %q: neither a registered generation nor 404", path, status, body))
							continue
						}
						hist.add(porcupine.Operation{ClientId: client, Input: regIn{key, opRead, 0}, Call: call, Output: val, Return: ret})
					default:
						if faulty && n%23 == 7 {
							req := rt.Req{Method: "GET", Path: "/stable/faulty", Hdr: map[string]string{"X-Fault": "1"}}
							rt.Run(c, rd.Entry, &req) // the answer is not C12's business
							ctx.Count("requests_whose_condition_panicked", 1)
						}
						i := n % 3
						path, want := fmt.Sprintf("/stable/s%d", i), fmt.Sprintf("stable-%d", i)
						if k == 3*rd.Mutators+1 {
							path, want = "/dyn/keep", "keep"
						}
						status, body, ok := get(path)
						if ok && (status != 200 || body != want) {
							atomic.AddInt32(&stableBad, 1)
							firstBad.Store(fmt.Sprintf("GET %s (not being changed) answered status %d body %q, expected 200 %q", path, status, body, want))
						}
						ctx.Count("stable_probes", 1)
					}
				}
			}(rdr)
		}
		done := make(chan struct{})
		go func() {
			mwg.Wait()
			atomic.StoreInt32(&stop, 1)
			rwg.Wait()
			close(done)
		}()
		blocked, timedOut := mon.WaitQuiescent(done, 60*time.Second)
		if timedOut {
			if len(blocked) > 0 {
				ctx.Violation(ri, "c12:deadlock:"+rd.Entry, fmt.Sprintf("goroutines are parked forever inside go-restful while services/routes change under load: %v", blocked[:min(6, len(blocked))]),
					map[string]interface{}{"round": rd, "blocked": blocked})
			} else {
				ctx.Inconclusive(fmt.Sprintf("round %d did not finish within the watchdog and no blocked go-restful frame was found", ri))
			}
			break // the container is wedged; later rounds would only repeat the witness
		}
		ctx.Count("rounds", 1)
		if n := atomic.LoadInt32(&panics); n > 0 {
			ctx.Violation(ri, "c12:panic:"+rd.Router+":"+rd.Entry, fmt.Sprintf("%d panic(s) while serving during registration changes; first: %v", n, firstPanic.Load()), map[string]interface{}{"round": rd})
		}
		if n := atomic.LoadInt32(&stableBad); n > 0 {
			ctx.Violation(ri, "c12:stable-answer:"+rd.Router+":"+rd.Entry, fmt.Sprintf("%d wrong answer(s); first: %v", n, firstBad.Load()), map[string]interface{}{"round": rd})
		}
		if n := atomic.LoadInt32(&filterBad); n > 0 {
			ctx.Violation(ri, "c12:foreign-filter:"+rd.Router+":"+rd.Entry, fmt.Sprintf("%d request(s) ran a filter chain that is not theirs; first: %v", n, firstFilterBad.Load()), map[string]interface{}{"round": rd})
		}
		// offline: linearizability per key
		hist.mu.Lock()
		ops := hist.ops
		hist.mu.Unlock()
		totalOps += len(ops)
		ctx.Eval(len(ops)) // every recorded client operation is an evaluated case of the history oracle
		overlap, distinctVals := overlapStats(ops)
		totalOverlap += overlap
		res, info := porcupine.CheckOperationsVerbose(regModel, ops, 90*time.Second)
		parts := regModel.Partition(ops)
		partitions += len(parts)
		switch res {
		case porcupine.Illegal:
			key, witness := illegalWitness(parts)
			_ = info
			ctx.Violation(ri, "c12:not-linearizable:"+rd.Router+":"+rd.Entry, fmt.Sprintf("history of key %s is not linearizable: a request was answered by a registration state that did not exist during the request (%d ops in the round)", key, len(ops)),
				map[string]interface{}{"round": rd, "key": key, "key_history": witness})
		case porcupine.Unknown:
			ctx.Inconclusive(fmt.Sprintf("porcupine timed out on round %d (%d ops)", ri, len(ops)))
		}
		if overlap > 0 {
			ctx.Sig(fmt.Sprintf("%s|%s|overlap", rd.Router, rd.Entry))
		}
		for _, v := range distinctVals {
			ctx.Sig(fmt.Sprintf("%s|%s|%s", rd.Router, rd.Entry, v))
		}
		if ctx.WantSample() && len(ops) > 10 {
			var s []string
			for _, op := range ops[:8] {
				s = append(s, fmt.Sprintf("client=%d %s [%d,%d]", op.ClientId, regModel.DescribeOperation(op.Input, op.Output), op.Call, op.Return))
			}
			ctx.Sample(map[string]interface{}{"round": rd, "ops_in_round": len(ops), "reads_overlapping_a_write_of_their_key": overlap, "first_ops": s})
		}
	}
	ctx.Put("operations_recorded", totalOps)
	ctx.Put("reads_overlapping_a_write_of_their_key", totalOverlap)
	ctx.Put("porcupine_partitions_checked", partitions)
}

func min(a, b int) int {
	if a < b {
		return a
	}
	return b
}

// overlapStats counts reads whose interval overlaps a write of the same key, and lists "key:class" values seen.
func overlapStats(ops []porcupine.Operation) (int, []string) {
	type iv struct{ a, b int64 }
	writes := map[string][]iv{}
	for _, op := range ops {
		in := op.Input.(regIn)
		if in.Kind != opRead {
			writes[in.Key] = append(writes[in.Key], iv{op.Call, op.Return})
		}
	}
	n := 0
	seen := map[string]bool{}
	for _, op := range ops {
		in := op.Input.(regIn)
		if in.Kind != opRead {
			continue
		}
		cls := "present"
		if op.Output.(int) == 0 {
			cls = "absent"
		}
		seen[in.Key+":"+cls] = true
		for _, w := range writes[in.Key] {
			if op.Call < w.b && w.a < op.Return {
				n++
				break
			}
		}
	}
	var out []string
	for k := range seen {
		out = append(out, k)
	}
	sort.Strings(out)
	return n, out
}

// illegalWitness finds the offending key and renders its history (sorted by call time).
func illegalWitness(parts [][]porcupine.Operation) (string, []string) {
	for _, p := range parts {
		single := porcupine.Model{Init: regModel.Init, Step: regModel.Step, Equal: regModel.Equal}
		if porcupine.CheckOperations(single, p) {
			continue
		}
		sort.Slice(p, func(i, j int) bool { return p[i].Call < p[j].Call })
		key := p[0].Input.(regIn).Key
		var out []string
		for i, op := range p {
			if i >= 80 {
				out = append(out, fmt.Sprintf("... %d more", len(p)-i))
				break
			}
			out = append(out, fmt.Sprintf("client=%d %s [%d,%d]", op.ClientId, regModel.DescribeOperation(op.Input, op.Output), op.Call, op.Return))
		}
		return key, out
	}
	return "?", nil
}
