package props

import (
	"bufio"
	"bytes"
	"compress/gzip"
	"compress/zlib"
	"context"
	"encoding/json"
	"errors"
	"fmt"
	"io"
	"net"
	"net/http"
	"runtime"
	"sort"
	"strings"
	"sync"
	"sync/atomic"
	"time"

	"github.com/anishathalye/porcupine"
	restful "github.com/emicklei/go-restful/v3"

	"verifharness/core"
	"verifharness/mon"
	"verifharness/rt"
)

func init() {
	register("C13", c13)
	selfTests = append(selfTests, c13SelfTest)
}

// spinBarrier: block until everybody has arrived, spin (with Gosched) only for the final alignment.
type spinBarrier struct {
	n       int32
	arrived int32
	gate    int32
	timeout int32
	strict  bool // never give up on its own: only abort() opens it (used where "somebody never arrives" IS the finding)
	aborted int32
}

func (b *spinBarrier) abort() { atomic.StoreInt32(&b.aborted, 1) }

func (b *spinBarrier) wait() {
	if atomic.AddInt32(&b.arrived, 1) >= b.n {
		atomic.StoreInt32(&b.gate, 1)
		return
	}
	began := time.Now()
	slow := false
	for i := 0; atomic.LoadInt32(&b.gate) == 0; i++ {
		runtime.Gosched()
		if atomic.LoadInt32(&b.aborted) != 0 {
			return
		}
		if slow {
			time.Sleep(time.Millisecond) // somebody is stuck: waiting for the state detector's verdict, alignment no longer matters
			continue
		}
		if i%1024 == 1023 && time.Since(began) > 2*time.Second {
			if b.strict {
				slow = true
			} else {
				atomic.AddInt32(&b.timeout, 1)
				return
			}
		}
	}
}

// mutexProvider is a trivial custom provider: one free list per kind under a mutex.
type mutexProvider struct {
	mu  sync.Mutex
	gzw []*gzip.Writer
	gzr []*gzip.Reader
	zlw []*zlib.Writer
}

func (p *mutexProvider) AcquireGzipWriter() *gzip.Writer {
	p.mu.Lock()
	defer p.mu.Unlock()
	if n := len(p.gzw); n > 0 {
		w := p.gzw[n-1]
		p.gzw = p.gzw[:n-1]
		return w
	}
	w, _ := gzip.NewWriterLevel(new(bytes.Buffer), gzip.BestSpeed)
	return w
}
func (p *mutexProvider) ReleaseGzipWriter(w *gzip.Writer) {
	p.mu.Lock()
	p.gzw = append(p.gzw, w)
	p.mu.Unlock()
}
func (p *mutexProvider) AcquireGzipReader() *gzip.Reader {
	p.mu.Lock()
	defer p.mu.Unlock()
	if n := len(p.gzr); n > 0 {
		r := p.gzr[n-1]
		p.gzr = p.gzr[:n-1]
		return r
	}
	return new(gzip.Reader)
}
func (p *mutexProvider) ReleaseGzipReader(r *gzip.Reader) {
	p.mu.Lock()
	p.gzr = append(p.gzr, r)
	p.mu.Unlock()
}
func (p *mutexProvider) AcquireZlibWriter() *zlib.Writer {
	p.mu.Lock()
	defer p.mu.Unlock()
	if n := len(p.zlw); n > 0 {
		w := p.zlw[n-1]
		p.zlw = p.zlw[:n-1]
		return w
	}
	w, _ := zlib.NewWriterLevel(new(bytes.Buffer), zlib.BestSpeed)
	return w
}
func (p *mutexProvider) ReleaseZlibWriter(w *zlib.Writer) {
	p.mu.Lock()
	p.zlw = append(p.zlw, w)
	p.mu.Unlock()
}

// c13Abort is set when a storm did not reach quiescence: goroutines of that storm may still run, the package-wide
// provider must not be swapped under them and nothing observed afterwards can be judged. The workload stops.
var c13Abort int32

// c13Provider builds a provider under the watchdog: a constructor that never returns (it fills its cache with blocking
// sends) would otherwise hang the whole check until the driver's timeout.
func c13Provider(name string) restful.CompressorProvider {
	var p restful.CompressorProvider
	done := make(chan struct{})
	go func() {
		defer close(done)
		p = c13NewProvider(name)
	}()
	if blocked, timedOut := mon.WaitQuiescent(done, 30*time.Second); timedOut {
		atomic.StoreInt32(&c13Abort, 1)
		c13ConstructorBlocked = append(c13ConstructorBlocked, fmt.Sprintf("%s: %v", name, blocked))
		return restful.NewSyncPoolCompessors() // never used for a verdict: the workload stops (c13Abort)
	}
	return p
}

// c13ConstructorBlocked is reported by c13 itself (the constructor runs where no case context is at hand).
var c13ConstructorBlocked []string

func c13NewProvider(name string) restful.CompressorProvider {
	switch name {
	case "bounded0":
		return restful.NewBoundedCachedCompressors(0, 0)
	case "bounded1":
		return restful.NewBoundedCachedCompressors(1, 1)
	case "bounded2":
		return restful.NewBoundedCachedCompressors(2, 1) // writers and readers have capacities of their own
	case "bounded8":
		return restful.NewBoundedCachedCompressors(8, 3)
	case "mutex":
		return &mutexProvider{}
	}
	return restful.NewSyncPoolCompessors()
}

var c13Providers = []string{"syncpool", "bounded0", "bounded1", "bounded2", "bounded8", "mutex"}

// ---- porcupine model: one mutex per object ----

type objIn struct {
	Obj     int
	Acquire bool
}

var objModel = porcupine.Model{
	Partition: func(h []porcupine.Operation) [][]porcupine.Operation {
		m := map[int][]porcupine.Operation{}
		var keys []int
		for _, op := range h {
			k := op.Input.(objIn).Obj
			if _, ok := m[k]; !ok {
				keys = append(keys, k)
			}
			m[k] = append(m[k], op)
		}
		sort.Ints(keys)
		out := make([][]porcupine.Operation, 0, len(keys))
		for _, k := range keys {
			out = append(out, m[k])
		}
		return out
	},
	Init: func() interface{} { return false },
	Step: func(state, input, output interface{}) (bool, interface{}) {
		held := state.(bool)
		if input.(objIn).Acquire {
			return !held, true
		}
		return held, false
	},
	Equal: func(a, b interface{}) bool { return a.(bool) == b.(bool) },
}

func ledgerOps(evs []mon.LedgerEvent) []porcupine.Operation {
	ops := make([]porcupine.Operation, 0, len(evs))
	for i, e := range evs {
		ops = append(ops, porcupine.Operation{ClientId: i % 64, Input: objIn{e.Obj, e.Op == "acquire"}, Call: e.Call, Output: 0, Return: e.Return})
	}
	return ops
}

// checkLedger turns ledger alarms / imbalance / non-linearizable object histories into violations.
func checkLedger(ctx *core.Ctx, ci int, l *mon.Ledger, where string, doc map[string]interface{}) {
	if al := l.Alarms(); len(al) > 0 {
		cls := "alarm"
		switch {
		case strings.Contains(al[0], "still in use"):
			cls = "shared"
		case strings.Contains(al[0], "not held"):
			cls = "double-release"
		case strings.Contains(al[0], "after it was released"):
			cls = "use-after-release"
		}
		doc["ledger_alarms"] = al
		ctx.Violation(ci, "c13:"+cls+":"+where, al[0], doc)
	}
	if n := l.Outstanding(); n != 0 {
		a, r := l.Counts()
		ctx.Violation(ci, "c13:not-released:"+where, fmt.Sprintf("%d object(s) still held at quiescence (acquired %d, released %d)", n, a, r), doc)
	}
	if h := l.History(); len(h) > 0 {
		ops := ledgerOps(h)
		res := porcupine.CheckOperationsTimeout(objModel, ops, 60*time.Second)
		ctx.Count("porcupine_object_events", len(ops))
		switch res {
		case porcupine.Illegal:
			ctx.Violation(ci, "c13:object-history-illegal:"+where, "acquire/release history of a pooled object is not that of an exclusively owned object (porcupine, per-object mutex model)", doc)
		case porcupine.Unknown:
			ctx.Inconclusive("porcupine timed out on an object history (" + where + ")")
		}
	}
}

// ---- A: direct provider storms ----

func directStorm(ctx *core.Ctx, ci int, provName string, g int, coding string) {
	l := mon.NewLedger(c13Provider(provName))
	l.KeepHist, l.Trip = true, true
	// start: everybody acquires at the same moment; bar: nobody releases before everybody HAS acquired, so an
	// acquire that waits for somebody else's release is parked for good and shows up in the state detector
	start := &spinBarrier{n: int32(g)}
	bar := &spinBarrier{n: int32(g), strict: true}
	bufs := make([]bytes.Buffer, g)
	var wg sync.WaitGroup
	for i := 0; i < g; i++ {
		wg.Add(1)
		go func(i int) {
			defer wg.Done()
			payload := []byte(fmt.Sprintf("direct-%d-%d-%s", ci, i, strings.Repeat("x", i*7)))
			start.wait()
			if coding == "gzip" {
				w := l.AcquireGzipWriter()
				w.Reset(&bufs[i])
				w.Write(payload)
				runtime.Gosched()
				w.Close()
				bar.wait() // everybody releases at the same moment
				l.ReleaseGzipWriter(w)
			} else {
				w := l.AcquireZlibWriter()
				w.Reset(&bufs[i])
				w.Write(payload)
				runtime.Gosched()
				w.Close()
				bar.wait()
				l.ReleaseZlibWriter(w)
			}
		}(i)
	}
	done := make(chan struct{})
	go func() { wg.Wait(); close(done) }()
	doc := map[string]interface{}{"provider": provName, "goroutines": g, "coding": coding, "kind": "direct"}
	if blocked, timedOut := mon.WaitQuiescent(done, 45*time.Second); timedOut {
		atomic.StoreInt32(&c13Abort, 1)
		bar.abort()
		if len(blocked) > 0 {
			doc["blocked"] = blocked
			cls := "release-blocks"
			if strings.Contains(blocked[0].Frame, "Acquire") {
				cls = "acquire-blocks"
			}
			ctx.Violation(ci, "c13:"+cls+":direct:"+provName, fmt.Sprintf("%d goroutine(s) parked forever in %s (everyone else is waiting for them or has finished)", len(blocked), blocked[0].Frame), doc)
		} else {
			ctx.Inconclusive("direct storm did not finish and no blocked go-restful frame was found")
		}
		return
	}
	ctx.Eval(1)
	ctx.Count("direct_storms", 1)
	ctx.Count("barrier_timeouts", int(bar.timeout))
	ctx.Max("max_objects_held_at_once", l.MaxHeld())
	for i := 0; i < g; i++ {
		want := fmt.Sprintf("direct-%d-%d-%s", ci, i, strings.Repeat("x", i*7))
		got, err := decodeComplete(coding, bufs[i].Bytes())
		if err != nil || string(got) != want {
			doc["holder"] = i
			ctx.Violation(ci, "c13:payload-mixed:direct:"+provName, fmt.Sprintf("holder %d's stream decodes to %.40q (%v), it wrote %.40q", i, got, err, want), doc)
			break
		}
	}
	checkLedger(ctx, ci, l, "direct:"+provName, doc)
	ctx.Sig(fmt.Sprintf("direct|%s|g=%d|%s", provName, g, coding))
	if ctx.WantSample() && g >= 4 {
		h := l.History()
		if len(h) > 8 {
			h = h[:8]
		}
		ctx.Sample(map[string]interface{}{"storm": doc, "max_held": l.MaxHeld(), "first_ledger_events": h})
	}
}

// ---- B: storms through the framework ----

type stormRec struct {
	*rt.Rec
	bar         *spinBarrier
	handlerDone *int32
	waited      bool
	failAfter   int // <0: never fails
	written     int
}

func (s *stormRec) Write(p []byte) (int, error) {
	if s.bar != nil && !s.waited && atomic.LoadInt32(s.handlerDone) == 1 {
		s.waited = true
		s.bar.wait() // the compressor's flush inside Close: the last public suspension point before release
	}
	if s.failAfter >= 0 && s.written+len(p) > s.failAfter {
		n := s.failAfter - s.written
		if n < 0 {
			n = 0
		}
		s.written += n
		s.Rec.Write(p[:n])
		return n, errors.New("injected: connection lost")
	}
	s.written += len(p)
	return s.Rec.Write(p)
}

// Hijack makes the recording writer an http.Hijacker (websocket-style handlers).
func (s *stormRec) Hijack() (net.Conn, *bufio.ReadWriter, error) {
	a, b := net.Pipe()
	b.Close()
	return a, bufio.NewReadWriter(bufio.NewReader(a), bufio.NewWriter(a)), nil
}

type hdKey struct{}

type echoDoc struct {
	ID  int    `json:"id"`
	Pad string `json:"pad"`
}

// slowBody hands out a few bytes per Read and yields in between, so that concurrent decoders interleave.
type slowBody struct {
	b []byte
	i int
}

func (s *slowBody) Read(p []byte) (int, error) {
	if s.i >= len(s.b) {
		return 0, io.EOF
	}
	runtime.Gosched()
	n := 7
	if n > len(p) {
		n = len(p)
	}
	if s.i+n > len(s.b) {
		n = len(s.b) - s.i
	}
	copy(p, s.b[s.i:s.i+n])
	s.i += n
	return n, nil
}
func (s *slowBody) Close() error { return nil }

func frameworkStorm(ctx *core.Ctx, ci int, provName string, inflight int, entry string, mode string) {
	l := mon.NewLedger(c13Provider(provName))
	l.KeepHist, l.Trip = true, true
	restful.SetCompressorProvider(l)
	c := restful.NewContainer()
	c.EnableContentEncoding(true)
	c.DoNotRecover(false)
	c.RecoverHandler(func(v interface{}, w http.ResponseWriter) {
		w.WriteHeader(500)
		w.Write([]byte(fmt.Sprintf("recovered:%v", v)))
	})
	if mode == "recover-aborts" {
		// the application's recover handler gives up the connection the way net/http asks for it (panic(http.ErrAbortHandler));
		// the compressor was installed by dispatch itself (container switch off, route switched on): it goes back all the same
		c.EnableContentEncoding(false)
		c.RecoverHandler(func(v interface{}, w http.ResponseWriter) { panic(http.ErrAbortHandler) })
	}
	inHandler := &spinBarrier{n: int32(inflight)}
	if mode == "filter-reads-body" {
		// a container filter (audit, validation) reads the gzip-encoded entity itself, also for requests that never reach a
		// route (404, 405) and for the plain handler behind HandleWithFilter
		c.Filter(func(req *restful.Request, resp *restful.Response, chain *restful.FilterChain) {
			if req.Request.Header.Get("Content-Encoding") == "gzip" {
				var d echoDoc
				req.ReadEntity(&d)
			}
			chain.ProcessFilter(req, resp)
		})
		c.HandleWithFilter("/plain13/", http.HandlerFunc(func(w http.ResponseWriter, r *http.Request) {
			w.Write([]byte("plain13"))
			atomic.StoreInt32(r.Context().Value(hdKey{}).(*int32), 1)
		}))
	}
	ws := new(restful.WebService).Path("/s")
	getRoute := ws.GET("/get")
	if mode == "recover-aborts" {
		getRoute.ContentEncodingEnabled(true)
	}
	ws.Route(getRoute.To(func(req *restful.Request, resp *restful.Response) {
		id := req.Request.Header.Get("X-Id")
		if mode == "bodiless" && !strings.HasSuffix(id, "0") {
			// responses without a body: nothing at all, a bare status, a zero-length Write
			inHandler.wait()
			switch id[len(id)-1] % 3 {
			case 0:
				resp.WriteHeader(http.StatusNoContent)
			case 1:
				resp.Write(nil)
			}
			atomic.StoreInt32(req.Request.Context().Value(hdKey{}).(*int32), 1)
			return
		}
		resp.Write([]byte("payload-of-" + id + "-"))
		inHandler.wait() // all requests are in flight (each holding its compressor) at once
		resp.Write([]byte(strings.Repeat(id+";", 50)))
		if (mode == "panic" || mode == "recover-aborts") && strings.HasSuffix(id, "3") {
			panic("storm-panic-" + id)
		}
		if mode == "hijack" && strings.HasSuffix(id, "2") {
			if conn, _, err := resp.Hijack(); err == nil {
				conn.Close()
			}
		}
		atomic.StoreInt32(req.Request.Context().Value(hdKey{}).(*int32), 1)
	}))
	// the same resource on a route that opted out of content encoding (the container switch is on)
	ws.Route(ws.GET("/optout").ContentEncodingEnabled(false).To(func(req *restful.Request, resp *restful.Response) {
		id := req.Request.Header.Get("X-Id")
		resp.Write([]byte("payload-of-" + id + "-"))
		inHandler.wait()
		resp.Write([]byte(strings.Repeat(id+";", 50)))
		atomic.StoreInt32(req.Request.Context().Value(hdKey{}).(*int32), 1)
	}))
	ws.Route(ws.POST("/echo").To(func(req *restful.Request, resp *restful.Response) {
		var d echoDoc
		err := req.ReadEntity(&d)
		inHandler.wait()
		if err != nil {
			resp.WriteErrorString(400, "read-error")
		} else {
			resp.Write([]byte(fmt.Sprintf("echo-%d-%d", d.ID, len(d.Pad))))
		}
		atomic.StoreInt32(req.Request.Context().Value(hdKey{}).(*int32), 1)
	}))
	c.Add(ws)
	closeBar := &spinBarrier{n: int32(inflight)}
	if mode != "normal" || inflight > 14 {
		closeBar = nil // the release barrier is only safe when every request reaches Close and spinners <= cores-2
	}
	type result struct {
		rec      *stormRec
		escape   interface{}
		id       int
		post     bool
		broken   bool
		unrouted bool
	}
	results := make([]*result, inflight)
	var wg sync.WaitGroup
	for i := 0; i < inflight; i++ {
		wg.Add(1)
		go func(i int) {
			defer wg.Done()
			id := ci*1000 + i
			res := &result{id: id}
			results[i] = res
			hd := new(int32)
			res.rec = &stormRec{Rec: rt.NewRec(), bar: closeBar, handlerDone: hd, failAfter: -1}
			if mode == "failing-writer" && i%3 == 0 {
				res.rec.failAfter = 12
			}
			req := rt.Req{Method: "GET", Path: "/s/get", Hdr: map[string]string{"X-Id": fmt.Sprint(id), "Accept-Encoding": []string{"gzip", "deflate"}[i%2]}}
			if i%5 == 4 {
				// content-coding names in another letter case, q-values, several codings: whether such a request is encoded is not
				// C13's business - if a compressor is acquired for it, it is released once, and the payload is the request's own
				req.Hdr["Accept-Encoding"] = []string{"GZIP", "Deflate", "gzip;q=0.5, deflate", "DEFLATE, GZip", "identity, gZip"}[(i/5)%5]
			}
			if mode == "route-opt-out" && i%3 != 0 {
				req.Path = "/s/optout"
			}
			var body []byte
			if mode == "request-bodies" || mode == "broken-bodies" || mode == "filter-reads-body" {
				res.post = true
				req.Method, req.Path = "POST", "/s/echo"
				if mode == "filter-reads-body" {
					// nobody waits in a handler for these: 404 in the service, 404 outside, 405, and the plain handler
					req.Path = []string{"/s/missing", "/nowhere", "/s/get", "/plain13/x"}[i%4]
					res.unrouted = true
				}
				raw, _ := json.Marshal(echoDoc{ID: id, Pad: strings.Repeat("p", 200+i)})
				var zb bytes.Buffer
				zw := gzip.NewWriter(&zb)
				zw.Write(raw)
				zw.Close()
				body = zb.Bytes()
				if mode == "broken-bodies" && i%3 == 1 {
					res.broken = true
					switch i % 9 {
					case 1:
						body = body[:len(body)/2] // truncated mid-stream
					case 4:
						body = append([]byte("XX"), body[2:]...) // bad magic
					default:
						body = raw // declared gzip but plain
					}
				}
				req.HasCT, req.CT = true, "application/json"
				req.Hdr["Content-Encoding"] = "gzip"
				req.BodyLen = len(body)
			}
			hr := rt.HTTPRequest(&req, nil)
			if body != nil {
				hr.Body = &slowBody{b: body}
				hr.ContentLength = int64(len(body))
			}
			hr = hr.WithContext(context.WithValue(context.Background(), hdKey{}, hd))
			func() {
				defer func() { res.escape = recover() }()
				if entry == rt.ServeHTTP {
					c.ServeHTTP(res.rec, hr)
				} else {
					c.Dispatch(res.rec, hr)
				}
			}()
		}(i)
	}
	done := make(chan struct{})
	go func() { wg.Wait(); close(done) }()
	where := fmt.Sprintf("%s:%s:%s", entry, mode, provName)
	doc := map[string]interface{}{"provider": provName, "in_flight": inflight, "entry": entry, "mode": mode, "kind": "framework"}
	if blocked, timedOut := mon.WaitQuiescent(done, 45*time.Second); timedOut {
		atomic.StoreInt32(&c13Abort, 1)
		if len(blocked) > 0 {
			doc["blocked"] = blocked
			ctx.Violation(ci, "c13:release-blocks:"+where, fmt.Sprintf("%d request(s) parked forever in %s (inside the deferred Close of their response)", len(blocked), blocked[0].Frame), doc)
		} else {
			ctx.Inconclusive("framework storm did not finish and no blocked go-restful frame was found: " + where)
		}
		return
	}
	ctx.Eval(inflight)
	ctx.Count("framework_storm_requests", inflight)
	ctx.Count("barrier_timeouts", int(inHandler.timeout))
	ctx.Max("max_objects_held_at_once", l.MaxHeld())
	for i, res := range results {
		if mode == "recover-aborts" && strings.HasSuffix(fmt.Sprint(res.id), "3") {
			continue // the recover handler aborted the connection on purpose: only the ledger is judged
		}
		if res.escape != nil {
			ctx.Violation(ci, "c13:panic:"+where, fmt.Sprintf("request %d panicked: %v", i, res.escape), doc)
			continue
		}
		if res.rec.failAfter >= 0 || res.unrouted {
			continue // the client lost the connection / a routing error or the plain handler answered: only the ledger is judged
		}
		ce := res.rec.Hdr().Get("Content-Encoding")
		body := res.rec.Body.Bytes()
		var plain []byte
		var err error
		if ce != "" {
			plain, err = decodeComplete(strings.ToLower(ce), body)
		} else {
			plain = body
		}
		var want string
		switch {
		case res.post && res.broken:
			want = "read-error"
		case res.post:
			want = fmt.Sprintf("echo-%d-%d", res.id, 200+i)
		case mode == "bodiless" && !strings.HasSuffix(fmt.Sprint(res.id), "0"):
			want = ""
		case mode == "panic" && strings.HasSuffix(fmt.Sprint(res.id), "3"):
			want = "payload-of-" + fmt.Sprint(res.id) + "-" + strings.Repeat(fmt.Sprint(res.id)+";", 50) + "recovered:storm-panic-" + fmt.Sprint(res.id)
		default:
			want = "payload-of-" + fmt.Sprint(res.id) + "-" + strings.Repeat(fmt.Sprint(res.id)+";", 50)
		}
		if err != nil || string(plain) != want {
			if res.post && res.broken && err == nil && strings.HasPrefix(string(plain), "echo-") {
				// trailer-only damage can still decode (DESIGN §4.8): not judged
				continue
			}
			doc["request"] = i
			ctx.Violation(ci, "c13:payload-mixed:"+where, fmt.Sprintf("response %d (%s) decodes to %.50q (%v), its own payload is %.50q", i, ce, plain, err, want), doc)
			break
		}
		ctx.Count("payloads_verified", 1)
	}
	checkLedger(ctx, ci, l, where, doc)
	ctx.Sig(fmt.Sprintf("framework|%s|n=%d|%s|%s", provName, inflight, entry, mode))
	if ctx.WantSample() && inflight >= 16 {
		a, r := l.Counts()
		ctx.Sample(map[string]interface{}{"storm": doc, "max_held": l.MaxHeld(), "acquired": a, "released": r})
	}
}

// handedOver: SetCompressorProvider may be called while responses are in flight; their compressors are then released into a
// provider that never handed them out (the interface says of Release*: "does not have to be one that was cached"). Such a
// provider must go on acquiring and releasing without blocking, for every kind of object, and hand out nothing twice.
func handedOver(ctx *core.Ctx, ci int, provName string) {
	inner := c13Provider(provName)
	l := mon.NewLedger(inner)
	l.KeepHist, l.Trip = true, true
	const n = 10
	gbufs, zbufs := make([]bytes.Buffer, n), make([]bytes.Buffer, n)
	var readBack [n]string
	done := make(chan struct{})
	go func() {
		defer close(done)
		// objects of a previous provider arrive first, before this provider has handed out anything
		for k := 0; k < 3; k++ {
			gw, _ := gzip.NewWriterLevel(new(bytes.Buffer), gzip.BestSpeed)
			inner.ReleaseGzipWriter(gw)
			zw, _ := zlib.NewWriterLevel(new(bytes.Buffer), zlib.BestSpeed)
			inner.ReleaseZlibWriter(zw)
			inner.ReleaseGzipReader(new(gzip.Reader))
		}
		gws, zws, grs := make([]*gzip.Writer, n), make([]*zlib.Writer, n), make([]*gzip.Reader, n)
		for i := 0; i < n; i++ {
			gws[i] = l.AcquireGzipWriter()
			gws[i].Reset(&gbufs[i])
			zws[i] = l.AcquireZlibWriter()
			zws[i].Reset(&zbufs[i])
		}
		for i := 0; i < n; i++ {
			gws[i].Write([]byte(fmt.Sprintf("handed-over-gzip-%d-%d", ci, i)))
			zws[i].Write([]byte(fmt.Sprintf("handed-over-zlib-%d-%d", ci, i)))
		}
		for i := 0; i < n; i++ {
			gws[i].Close()
			zws[i].Close()
			l.ReleaseGzipWriter(gws[i])
			l.ReleaseZlibWriter(zws[i])
		}
		for i := 0; i < n; i++ {
			grs[i] = l.AcquireGzipReader()
		}
		for i := 0; i < n; i++ {
			if err := grs[i].Reset(bytes.NewReader(gbufs[i].Bytes())); err == nil {
				b, _ := io.ReadAll(grs[i])
				readBack[i] = string(b)
			}
		}
		for i := 0; i < n; i++ {
			l.ReleaseGzipReader(grs[i])
		}
	}()
	doc := map[string]interface{}{"provider": provName, "kind": "handed-over", "objects_of_a_previous_provider_released_first": 9, "held_at_once": n}
	if blocked, timedOut := mon.WaitQuiescent(done, 45*time.Second); timedOut {
		atomic.StoreInt32(&c13Abort, 1)
		if len(blocked) > 0 {
			doc["blocked"] = blocked
			cls := "release-blocks"
			if strings.Contains(blocked[0].Frame, "Acquire") {
				cls = "acquire-blocks"
			}
			ctx.Violation(ci, "c13:"+cls+":handed-over:"+provName, fmt.Sprintf("parked forever in %s after objects of a previous provider were released into this one", blocked[0].Frame), doc)
		} else {
			ctx.Inconclusive("hand-over scenario did not finish and no blocked go-restful frame was found")
		}
		return
	}
	ctx.Eval(1)
	ctx.Count("provider_hand_overs", 1)
	for i := 0; i < n; i++ {
		g, gerr := decodeComplete("gzip", gbufs[i].Bytes())
		z, zerr := decodeComplete("deflate", zbufs[i].Bytes())
		wg, wz := fmt.Sprintf("handed-over-gzip-%d-%d", ci, i), fmt.Sprintf("handed-over-zlib-%d-%d", ci, i)
		if gerr != nil || zerr != nil || string(g) != wg || string(z) != wz || readBack[i] != wg {
			doc["holder"] = i
			ctx.Violation(ci, "c13:payload-mixed:handed-over:"+provName, fmt.Sprintf("holder %d: gzip stream %.40q (%v), zlib stream %.40q (%v), read back through a pooled reader %.40q; written %q / %q", i, g, gerr, z, zerr, readBack[i], wg, wz), doc)
			break
		}
	}
	checkLedger(ctx, ci, l, "handed-over:"+provName, doc)
	ctx.Sig("handed-over|" + provName)
}

// directChurn: acquires overlap releases (no barrier): g goroutines x n iterations of acquire/use/release.
func directChurn(ctx *core.Ctx, ci int, provName string, g, n int) {
	l := mon.NewLedger(c13Provider(provName))
	l.KeepHist, l.Trip = true, true
	var bad int32
	var first atomic.Value
	var wg sync.WaitGroup
	for i := 0; i < g; i++ {
		wg.Add(1)
		go func(i int) {
			defer wg.Done()
			var buf bytes.Buffer
			for k := 0; k < n; k++ {
				buf.Reset()
				payload := fmt.Sprintf("churn-%d-%d-%d-%s", ci, i, k, strings.Repeat("y", (i+k)%17))
				coding := "gzip"
				if (i+k)%2 == 0 {
					w := l.AcquireGzipWriter()
					w.Reset(&buf)
					w.Write([]byte(payload))
					w.Close()
					l.ReleaseGzipWriter(w)
				} else {
					coding = "deflate"
					w := l.AcquireZlibWriter()
					w.Reset(&buf)
					w.Write([]byte(payload))
					w.Close()
					l.ReleaseZlibWriter(w)
				}
				got, err := decodeComplete(coding, buf.Bytes())
				if err != nil || string(got) != payload {
					atomic.AddInt32(&bad, 1)
					first.Store(fmt.Sprintf("holder %d iteration %d (%s): stream decodes to %.40q (%v), it wrote %.40q", i, k, coding, got, err, payload))
				}
			}
		}(i)
	}
	done := make(chan struct{})
	go func() { wg.Wait(); close(done) }()
	doc := map[string]interface{}{"provider": provName, "goroutines": g, "iterations": n, "kind": "direct-churn"}
	if blocked, timedOut := mon.WaitQuiescent(done, 240*time.Second); timedOut {
		atomic.StoreInt32(&c13Abort, 1)
		if len(blocked) > 0 {
			doc["blocked"] = blocked
			ctx.Violation(ci, "c13:release-blocks:churn:"+provName, fmt.Sprintf("%d goroutine(s) parked forever in %s", len(blocked), blocked[0].Frame), doc)
		} else {
			ctx.Inconclusive("direct churn did not finish and no blocked go-restful frame was found")
		}
		return
	}
	ctx.Eval(g * n)
	ctx.Count("direct_churn_cycles", g*n)
	if atomic.LoadInt32(&bad) > 0 {
		ctx.Violation(ci, "c13:payload-mixed:churn:"+provName, fmt.Sprintf("%d stream(s) corrupted; first: %v", bad, first.Load()), doc)
	}
	checkLedger(ctx, ci, l, "churn:"+provName, doc)
	ctx.Sig(fmt.Sprintf("direct-churn|%s|g=%d", provName, g))
}

// frameworkChurn: g goroutines issue n encoded requests each, back to back, through the entry point.
func frameworkChurn(ctx *core.Ctx, ci int, provName string, g, n int, entry string) {
	l := mon.NewLedger(c13Provider(provName))
	l.KeepHist, l.Trip = true, true
	restful.SetCompressorProvider(l)
	c := restful.NewContainer()
	c.EnableContentEncoding(true)
	ws := new(restful.WebService).Path("/c")
	ws.Route(ws.GET("/get").To(func(req *restful.Request, resp *restful.Response) {
		id := req.Request.Header.Get("X-Id")
		resp.Write([]byte("churn-payload-" + id + "-"))
		runtime.Gosched()
		resp.Write([]byte(strings.Repeat(id+",", 30)))
	}))
	c.Add(ws)
	// a plain handler behind Container.Handle (the wrapper itself encodes when the request did not come through Container.ServeHTTP)
	c.Handle("/hc/", http.HandlerFunc(func(w http.ResponseWriter, r *http.Request) {
		id := r.Header.Get("X-Id")
		w.Write([]byte("churn-payload-" + id + "-"))
		runtime.Gosched()
		w.Write([]byte(strings.Repeat(id+",", 30)))
	}))
	var bad int32
	var first atomic.Value
	var wg sync.WaitGroup
	for i := 0; i < g; i++ {
		wg.Add(1)
		go func(i int) {
			defer wg.Done()
			for k := 0; k < n; k++ {
				id := fmt.Sprintf("%d-%d-%d", ci, i, k)
				req := rt.Req{Method: "GET", Path: "/c/get", Hdr: map[string]string{"X-Id": id, "Accept-Encoding": []string{"gzip", "deflate"}[(i+k)%2]}}
				var o *rt.Outcome
				if entry == "ServeMux" {
					// the container's ServeMux served directly, as http.ListenAndServe(addr, nil) serves the package-level container
					req.Path = "/hc/x"
					rec := rt.NewRec()
					o = &rt.Outcome{Rec: rec, Obs: &rt.Obs{}}
					func() {
						defer func() {
							if p := recover(); p != nil {
								o.Panicked, o.Panic = true, fmt.Sprint(p)
							}
						}()
						c.ServeMux.ServeHTTP(rec, rt.HTTPRequest(&req, nil))
					}()
				} else {
					o = rt.Run(c, entry, &req)
				}
				ce := o.Rec.Hdr().Get("Content-Encoding")
				want := "churn-payload-" + id + "-" + strings.Repeat(id+",", 30)
				got, err := decodeComplete(ce, o.Rec.Body.Bytes())
				if o.Panicked || err != nil || string(got) != want {
					atomic.AddInt32(&bad, 1)
					first.Store(fmt.Sprintf("request %s (%s): decodes to %.50q (err %v, panic %q), own payload %.50q", id, ce, got, err, o.Panic, want))
				}
			}
		}(i)
	}
	done := make(chan struct{})
	go func() { wg.Wait(); close(done) }()
	where := "churn:" + entry + ":" + provName
	doc := map[string]interface{}{"provider": provName, "goroutines": g, "requests_each": n, "entry": entry, "kind": "framework-churn"}
	if blocked, timedOut := mon.WaitQuiescent(done, 240*time.Second); timedOut {
		atomic.StoreInt32(&c13Abort, 1)
		if len(blocked) > 0 {
			doc["blocked"] = blocked
			ctx.Violation(ci, "c13:release-blocks:"+where, fmt.Sprintf("%d request(s) parked forever in %s", len(blocked), blocked[0].Frame), doc)
		} else {
			ctx.Inconclusive("framework churn did not finish and no blocked go-restful frame was found")
		}
		return
	}
	ctx.Eval(g * n)
	ctx.Count("framework_churn_requests", g*n)
	if atomic.LoadInt32(&bad) > 0 {
		ctx.Violation(ci, "c13:payload-mixed:"+where, fmt.Sprintf("%d response(s) were not a complete encoding of their own payload; first: %v", bad, first.Load()), doc)
	}
	checkLedger(ctx, ci, l, where, doc)
	ctx.Sig(fmt.Sprintf("framework-churn|%s|%s", provName, entry))
}

// secondClose: closing a response writer twice is an error, not a second release.
func secondClose(ctx *core.Ctx, ci int, provName, coding string) {
	l := mon.NewLedger(c13Provider(provName))
	l.Trip = true
	restful.SetCompressorProvider(l)
	rec := rt.NewRec()
	w, err := restful.NewCompressingResponseWriter(rec, coding)
	doc := map[string]interface{}{"provider": provName, "coding": coding, "kind": "second-close"}
	if err != nil {
		ctx.Violation(ci, "c13:new-writer", err.Error(), doc)
		return
	}
	w.Write([]byte("abc"))
	e1 := w.Close()
	_, r1 := l.Counts()
	e2 := w.Close()
	_, r2 := l.Counts()
	_, e3 := w.Write([]byte("late"))
	w.Flush() // any use of the closed writer must leave the released compressor alone (trip-wire)
	ctx.Eval(1)
	if e1 != nil || e2 == nil || r1 != 1 || r2 != 1 {
		ctx.Violation(ci, "c13:second-close:"+provName, fmt.Sprintf("first Close err=%v, second Close err=%v, releases after first=%d after second=%d", e1, e2, r1, r2), doc)
	}
	if e3 == nil {
		ctx.Violation(ci, "c13:write-after-close:"+provName, "Write after Close succeeded", doc)
	}
	checkLedger(ctx, ci, l, "second-close:"+provName, doc)
	ctx.Sig("second-close|" + provName + "|" + coding)
}

func c13(ctx *core.Ctx) {
	quietLogs()
	atomic.StoreInt32(&c13Abort, 0)
	ctx.Rule("providers {sync.Pool, bounded cache with (writers, readers) capacity (0,0)/(1,1)/(2,1)/(8,3), custom mutex free-list} behind an instrumenting provider (ledger + trip-wire + history). (A) direct storms: g in {2,4,8} goroutines acquire, use and close a writer, then release together through a spin barrier. (B) storms through Dispatch/ServeHTTP with in-flight in {1,2,capacity,capacity+1,16,64,100} requests all held inside the handler at once, modes {normal (release barrier inside the compressor flush), failing underlying writer, panicking handler with recovery, gzip request bodies via ReadEntity read in 7-byte slices, broken request bodies, handler hijacking the connection, handlers that write no body (nothing, bare 204, zero-length Write), a route that opted out of content encoding, a container filter reading gzip entities of requests that end in 404/405 or at a HandleWithFilter handler, a recover handler that aborts the connection with panic(http.ErrAbortHandler) while the route's own encoding switch is on}; churn: goroutines acquire/use/release (directly and through Dispatch/ServeHTTP) back to back without barriers, so that acquires overlap releases. (C) second Close. (D) hand-over: objects of a previous provider are released into a provider before it has handed out anything (SetCompressorProvider while responses are in flight), then 10 writers of each coding and 10 readers are held at once. Every fifth storm request spells its Accept-Encoding in another letter case or with q-values / two codings. Oracle: no object handed out while held, each acquired object released exactly once, no write through a released writer, every response/request body decodes to its own payload, nobody parked forever in Release/Close (goroutine state), per-object acquire/release history linearizable against a mutex (porcupine). Race detector on. Non-trivial = a storm with >= 2 holders; distinct by (kind, provider, holders, entry, mode, coding).")
	ctx.Assume("the ledger adds after the inner acquire and removes before the inner release: it cannot false-alarm on provider-internal ordering")
	defer func() {
		for _, b := range c13ConstructorBlocked {
			ctx.Violation(-1, "c13:constructor-blocks", "creating the provider never returned (parked inside the library): "+b, map[string]interface{}{"blocked": b})
		}
		c13ConstructorBlocked = nil
	}()
	defer func() {
		// after an abort goroutines of the unfinished storm may still be serving: the package-wide provider is left alone
		if atomic.LoadInt32(&c13Abort) == 0 {
			restful.SetCompressorProvider(restful.NewSyncPoolCompessors())
		}
	}()
	direct := ctx.N(1800, 20000) // cheap (about a millisecond each under the race detector); many short storms make the simultaneous release robust on a loaded machine
	ci := 0
	for i := 0; i < direct; i++ {
		ci++
		if ctx.Skip(ci) {
			continue
		}
		prov := c13Providers[i%len(c13Providers)]
		g := []int{2, 4, 8, 8}[(i/len(c13Providers))%4]
		coding := []string{"gzip", "deflate"}[(i/24)%2]
		if i%40 == 0 {
			ctx.Case(ci, fmt.Sprintf("direct provider=%s g=%d coding=%s", prov, g, coding))
		}
		directStorm(ctx, ci, prov, g, coding)
		if ctx.Violations() > 20 || atomic.LoadInt32(&c13Abort) != 0 {
			return
		}
	}
	churnReps := ctx.N(1, 10)
	for rep := 0; rep < churnReps; rep++ {
		for pi, prov := range c13Providers {
			ci++
			if !ctx.Skip(ci) && atomic.LoadInt32(&c13Abort) == 0 {
				ctx.Case(ci, "objects of a previous provider released into provider="+prov)
				handedOver(ctx, ci, prov)
				if atomic.LoadInt32(&c13Abort) != 0 {
					return
				}
			}
			ci++
			if !ctx.Skip(ci) {
				ctx.Case(ci, "direct churn provider="+prov)
				directChurn(ctx, ci, prov, 8, ctx.N(250, 400))
				if atomic.LoadInt32(&c13Abort) != 0 {
					return
				}
			}
			ci++
			if !ctx.Skip(ci) {
				entry := []string{rt.Dispatch, rt.ServeHTTP, "ServeMux"}[(pi+rep)%3]
				ctx.Case(ci, "framework churn provider="+prov+" entry="+entry)
				frameworkChurn(ctx, ci, prov, 8, ctx.N(40, 150), entry)
			}
			if ctx.Violations() > 20 || atomic.LoadInt32(&c13Abort) != 0 {
				return
			}
		}
	}
	modes := []string{"normal", "failing-writer", "panic", "request-bodies", "broken-bodies", "hijack", "bodiless", "route-opt-out", "filter-reads-body", "recover-aborts"}
	reps := ctx.N(1, 12)
	for rep := 0; rep < reps; rep++ {
		for _, prov := range c13Providers {
			capacity := map[string]int{"bounded0": 0, "bounded1": 1, "bounded2": 2, "bounded8": 8}[prov]
			sizes := []int{1, 2, 16}
			if capacity > 0 {
				sizes = append(sizes, capacity, capacity+1)
			}
			if rep%4 == 0 && (!ctx.Quick() || prov == "syncpool" || prov == "bounded2") {
				sizes = append(sizes, 64)
			}
			if (rep%4 == 2 && !ctx.Quick()) || (ctx.Quick() && prov == "bounded8") {
				sizes = append(sizes, 100) // more requests in flight than any power-of-two sized structure up to 64 holds
			}
			for ni, n := range sizes {
				for mi, mode := range modes {
					ci++
					if ctx.Skip(ci) {
						continue
					}
					entry := rt.Dispatch
					if (ni+mi+rep)%2 == 1 {
						entry = rt.ServeHTTP
					}
					ctx.Case(ci, fmt.Sprintf("framework provider=%s in_flight=%d entry=%s mode=%s", prov, n, entry, mode))
					frameworkStorm(ctx, ci, prov, n, entry, mode)
					if ctx.Violations() > 20 || atomic.LoadInt32(&c13Abort) != 0 {
						return
					}
				}
			}
			for _, coding := range []string{"gzip", "deflate"} {
				ci++
				if !ctx.Skip(ci) && atomic.LoadInt32(&c13Abort) == 0 {
					secondClose(ctx, ci, prov, coding)
				}
			}
		}
	}
}

// c13SelfTest guards against a deaf monitor: the ledger must fire on a deliberately broken provider.
type brokenProvider struct {
	plainProvider
	w *gzip.Writer
}

func (b *brokenProvider) AcquireGzipWriter() *gzip.Writer { return b.w } // hands out one object to everybody

func c13SelfTest(ctx *core.Ctx) {
	w, _ := gzip.NewWriterLevel(new(bytes.Buffer), gzip.BestSpeed)
	l := mon.NewLedger(&brokenProvider{w: w})
	l.KeepHist, l.Trip = true, true
	a := l.AcquireGzipWriter()
	b := l.AcquireGzipWriter()
	l.ReleaseGzipWriter(a)
	l.ReleaseGzipWriter(b)
	a.Write([]byte("stale")) // through the trip-wire sink
	a.Flush()
	al := strings.Join(l.Alarms(), " | ")
	for _, want := range []string{"still in use", "not held", "after it was released"} {
		if !strings.Contains(al, want) {
			ctx.Violation(-1, "selftest", "ledger is deaf to: "+want+" (alarms: "+al+")", nil)
		}
	}
	if porcupine.CheckOperations(objModel, ledgerOps(l.History())) {
		ctx.Violation(-1, "selftest", "porcupine object model accepts a history with a double acquire", nil)
	}
	ctx.Eval(1)
	ctx.Sig("ledger-selftest")
}
