package props

import (
	"encoding/xml"
	"errors"
	"fmt"
	"io"
	"net/http"
	"strings"
	"syscall"

	restful "github.com/emicklei/go-restful/v3"

	"verifharness/core"
	"verifharness/rt"
)

func init() { register("C15", c15) }

// errInjected is what the underlying writer fails with; it rotates over plain errors and the sentinels a real
// net/http connection produces (the property speaks of "that error", whichever it is).
var errInjected = errors.New("injected: underlying writer failed")

var errKinds = []error{errors.New("injected: underlying writer failed"), http.ErrBodyNotAllowed, http.ErrHandlerTimeout, io.ErrClosedPipe, io.ErrShortWrite, syscall.EPIPE, http.ErrContentLength}

// faultWriter accepts exactly limit bytes, then fails every call.
type faultWriter struct {
	h            http.Header
	status       int
	accepted     int
	limit        int // <0: never fails
	failedAtCall int
	curCall      *int
	body         []byte
	perCall      map[int]int // bytes accepted per API call index
}

func newFaultWriter(limit int, cur *int) *faultWriter {
	return &faultWriter{h: http.Header{}, limit: limit, failedAtCall: -1, curCall: cur, perCall: map[int]int{}}
}

func (f *faultWriter) Header() http.Header { return f.h }
func (f *faultWriter) WriteHeader(s int) {
	if f.status == 0 {
		f.status = s
	}
}
func (f *faultWriter) Write(p []byte) (int, error) {
	if f.status == 0 {
		f.status = 200
	}
	if f.limit >= 0 && f.accepted+len(p) > f.limit {
		n := f.limit - f.accepted
		if n < 0 {
			n = 0
		}
		f.accepted += n
		f.body = append(f.body, p[:n]...)
		f.perCall[*f.curCall] += n
		if f.failedAtCall < 0 {
			f.failedAtCall = *f.curCall
		}
		return n, errInjected
	}
	f.accepted += len(p)
	f.body = append(f.body, p...)
	f.perCall[*f.curCall] += len(p)
	return len(p), nil
}

// ReadFrom: like net/http's own response writer the recording writer is an io.ReaderFrom
// (io.Copy prefers it when the destination offers it).
func (f *faultWriter) ReadFrom(r io.Reader) (int64, error) {
	b, err := io.ReadAll(r)
	if err != nil {
		return 0, err
	}
	n, werr := f.Write(b)
	return int64(n), werr
}

type c15Entity struct {
	XMLName xml.Name `json:"-" xml:"item"`
	Name    string   `json:"name" xml:"name"`
	N       int64    `json:"n" xml:"n"`
	Tags    []string `json:"tags" xml:"tags>tag"`
}

type c15Bad struct {
	XMLName xml.Name `json:"-" xml:"bad"`
	C       chan int `json:"c" xml:"c"`
}

type c15Seq struct {
	First     string `json:"first"`
	Status    int    `json:"status"`
	Value     string `json:"value"` // small | big | nil | bad | svcerr
	Writes    []int  `json:"writes"`
	Pretty    bool   `json:"pretty"`
	Accept    string `json:"accept"`
	Coding    string `json:"coding"` // "" | gzip | deflate
	UseResp   bool   `json:"pretty_via_response"`
	Adapter   bool   `json:"middleware_adapter_between_observer_and_handler"`
	Copy      bool   `json:"body_chunks_via_io_copy"` // body chunks are sent with io.Copy(resp, reader) instead of resp.Write
	HWF       bool   `json:"plain_handler_via_HandleWithFilter"`
	Declared  bool   `json:"handler_declares_content_length_4242"` // a Content-Length header set by the handler is a declaration, not a count
	Unrouted  string `json:"routing_failure,omitempty"`            // "404" | "405": no route function runs, the framework's (or a custom) error handler writes
	CustomErr bool   `json:"custom_service_error_handler_writes_a_body_without_status"`
	Nested    bool   `json:"container_nested_as_plain_handler_of_an_outer_container"` // the observing filter sits on the outer container
	Panic     bool   `json:"handler_panics_after_its_calls"`                          // recovery is on; IF the observing filter resumes, what it reads must be true
}

var c15Firsts = []string{"none", "WriteHeader", "WriteEntity", "WriteHeaderAndEntity", "WriteAsJson", "WriteAsXml", "WriteHeaderAndJson", "WriteHeaderAndXml", "WriteJson",
	"WriteError", "WriteErrorNil", "WriteErrorString", "WriteServiceError", "WriteEntity406"}

func (s *c15Seq) value() interface{} {
	switch s.Value {
	case "small":
		return c15Entity{Name: "a", N: 1}
	case "big":
		return c15Entity{Name: strings.Repeat("n", 300), N: 1 << 60, Tags: []string{"x", "y", strings.Repeat("t", 100)}}
	case "bad":
		return c15Bad{C: make(chan int)}
	}
	return nil
}

type c15Run struct {
	errs       []error
	statusSeen int
	lenSeen    int
	fw         *faultWriter
	panicked   interface{}
	observed   bool // the observing filter's code behind ProcessFilter ran
	plainSent  int  // plaintext bytes handed to calls that returned no error (direct Write calls only)
}

func runC15(s *c15Seq, limit int) *c15Run {
	run := &c15Run{}
	cur := 0
	fw := newFaultWriter(limit, &cur)
	run.fw = fw
	c := restful.NewContainer()
	c.EnableContentEncoding(s.Coding != "")
	observerOn := c
	var outer *restful.Container
	if s.Nested {
		// the container that serves the route is itself the plain handler of an outer container (HandleWithFilter): its Response
		// is created on the outer one's Response, and the outer container's filter is the one that reads status and length
		outer = restful.NewContainer()
		observerOn = outer
	}
	observerOn.Filter(func(req *restful.Request, resp *restful.Response, chain *restful.FilterChain) {
		chain.ProcessFilter(req, resp)
		// "both are what filters after the handler observe"
		run.statusSeen = resp.StatusCode()
		run.lenSeen = resp.ContentLength()
		run.observed = true
	})
	if s.Panic {
		c.DoNotRecover(false)
		c.RecoverHandler(func(v interface{}, w http.ResponseWriter) {
			w.WriteHeader(500)
			w.Write([]byte("recovered"))
		})
	}
	if s.CustomErr {
		// an application that answers routing failures with a page of its own and never sets a status (200 goes out)
		c.ServiceErrorHandler(func(err restful.ServiceError, req *restful.Request, resp *restful.Response) {
			resp.Write([]byte("<html>single page application: " + strings.Repeat("i", 40) + "</html>"))
		})
	}
	if s.Adapter {
		// an adapted net/http middleware sits between the observing filter and the handler
		c.Filter(restful.HttpMiddlewareHandlerToFilter(func(next http.Handler) http.Handler {
			return http.HandlerFunc(func(w http.ResponseWriter, r *http.Request) { next.ServeHTTP(w, r) })
		}))
	}
	ws := new(restful.WebService).Path("/b")
	h := func(req *restful.Request, resp *restful.Response) {
		if s.UseResp {
			resp.PrettyPrint(s.Pretty)
		}
		call := func(f func() error) {
			cur = len(run.errs)
			run.errs = append(run.errs, f())
		}
		if s.Declared {
			resp.Header().Set("Content-Length", "4242")
		}
		v := s.value()
		switch s.First {
		case "WriteHeader":
			call(func() error { resp.WriteHeader(s.Status); return nil })
		case "WriteEntity", "WriteEntity406":
			call(func() error { return resp.WriteEntity(v) })
		case "WriteHeaderAndEntity":
			call(func() error { return resp.WriteHeaderAndEntity(s.Status, v) })
		case "WriteAsJson":
			call(func() error { return resp.WriteAsJson(v) })
		case "WriteAsXml":
			call(func() error { return resp.WriteAsXml(v) })
		case "WriteHeaderAndJson":
			call(func() error { return resp.WriteHeaderAndJson(s.Status, v, "application/vnd.verif+json") })
		case "WriteHeaderAndXml":
			call(func() error { return resp.WriteHeaderAndXml(s.Status, v) })
		case "WriteJson":
			call(func() error { return resp.WriteJson(v, "application/vnd.verif+json") })
		case "WriteError":
			call(func() error { return resp.WriteError(s.Status, errors.New("the reason "+strings.Repeat("r", 40))) })
		case "WriteErrorNil":
			call(func() error { return resp.WriteError(s.Status, nil) })
		case "WriteErrorString":
			call(func() error { return resp.WriteErrorString(s.Status, "error string "+strings.Repeat("e", 30)) })
		case "WriteServiceError":
			call(func() error {
				return resp.WriteServiceError(s.Status, restful.NewError(s.Status, "service error message"))
			})
		}
		for i, n := range s.Writes {
			chunk := []byte(strings.Repeat(string(rune('a'+i)), n))
			call(func() error {
				if s.Copy && i%2 == 0 {
					// a plain io.Reader (no WriterTo): io.Copy then looks for ReaderFrom on the destination, else uses Write
					k, err := io.Copy(resp, struct{ io.Reader }{strings.NewReader(string(chunk))})
					if err == nil {
						run.plainSent += int(k)
					}
					return err
				}
				k, err := resp.Write(chunk)
				if err == nil {
					run.plainSent += k
				}
				return err
			})
		}
		if s.Panic {
			panic("handler panics after its calls")
		}
	}
	c.HandleWithFilter("/hwf/", http.HandlerFunc(func(w http.ResponseWriter, r *http.Request) {
		// a plain net/http handler behind the container filters: status, then body chunks
		call := func(f func() error) {
			cur = len(run.errs)
			run.errs = append(run.errs, f())
		}
		if s.Declared {
			w.Header().Set("Content-Length", "4242")
		}
		if s.First != "none" {
			call(func() error { w.WriteHeader(s.Status); return nil })
		}
		for i, n := range s.Writes {
			chunk := []byte(strings.Repeat(string(rune('a'+i)), n))
			call(func() error { _, err := w.Write(chunk); return err })
		}
	}))
	ws.Route(ws.GET("/x").Produces(restful.MIME_JSON, restful.MIME_XML).To(h))
	ws.Route(ws.GET("/csv").Produces("text/csv").To(h))
	c.Add(ws)
	req := rt.Req{Method: "GET", Path: "/b/x", Hdr: map[string]string{}}
	if s.Unrouted == "404" {
		req.Path = "/b/no-such-resource"
	} else if s.Unrouted == "405" {
		req.Method = "DELETE"
	} else if s.HWF {
		req.Path = "/hwf/x"
	} else if s.First == "WriteEntity406" {
		req.Path = "/b/csv"
		req.HasAcc, req.Accept = true, "text/csv"
	} else if s.Accept != "" {
		req.HasAcc, req.Accept = true, s.Accept
	}
	if s.Coding != "" {
		req.Hdr["Accept-Encoding"] = s.Coding
	}
	hr := rt.HTTPRequest(&req, nil)
	if s.Nested {
		outer.HandleWithFilter("/b/", c)
	}
	func() {
		defer func() { run.panicked = recover() }()
		if s.Nested {
			outer.ServeHTTP(fw, hr)
		} else if s.HWF {
			c.ServeHTTP(fw, hr)
		} else {
			c.Dispatch(fw, hr)
		}
	}()
	return run
}

// countingWriter accepts everything and keeps only the count (responses of several GiB).
type countingWriter struct {
	h      http.Header
	status int
	n      int64
}

func (w *countingWriter) Header() http.Header { return w.h }
func (w *countingWriter) WriteHeader(s int) {
	if w.status == 0 {
		w.status = s
	}
}
func (w *countingWriter) Write(b []byte) (int, error) { w.n += int64(len(b)); return len(b), nil }

// c15Huge: responses beyond 2 GiB and 4 GiB (a download streamed in 64 MiB Write calls from one reused buffer): the count
// a trailing filter reads is the number of bytes the underlying writer accepted.
func c15Huge(ctx *core.Ctx) {
	chunk := make([]byte, 64<<20)
	for _, total := range []int64{1<<31 - 1, 1<<31 + 1<<20, 1<<32 + 5} {
		var seen int64 = -1
		c := restful.NewContainer()
		c.Filter(func(req *restful.Request, resp *restful.Response, chain *restful.FilterChain) {
			chain.ProcessFilter(req, resp)
			seen = int64(resp.ContentLength())
		})
		ws := new(restful.WebService).Path("/huge")
		ws.Route(ws.GET("/").To(func(req *restful.Request, resp *restful.Response) {
			for left := total; left > 0; {
				n := int64(len(chunk))
				if left < n {
					n = left
				}
				resp.Write(chunk[:n])
				left -= n
			}
		}))
		c.Add(ws)
		w := &countingWriter{h: http.Header{}}
		req := rt.Req{Method: "GET", Path: "/huge"}
		c.Dispatch(w, rt.HTTPRequest(&req, nil))
		ctx.Eval(1)
		ctx.Count("huge_responses", 1)
		ctx.Max("largest_response_bytes", int(total))
		if seen != w.n || w.n != total {
			ctx.Violation(-1, "c15:length:huge", fmt.Sprintf("a response of %d bytes: the underlying writer accepted %d, ContentLength() read by the trailing filter is %d", total, w.n, seen),
				map[string]interface{}{"bytes": total, "accepted": w.n, "content_length_seen": seen})
		}
	}
}

func c15(ctx *core.Ctx) {
	quietLogs()
	ctx.Rule("generated call sequences: first call in {none, WriteHeader, WriteEntity (JSON/XML by Accept, also the 406 dead end), WriteHeaderAndEntity, WriteAsJson/Xml, WriteHeaderAndJson/Xml, WriteJson, WriteError (err / nil), WriteErrorString, WriteServiceError} with payload {small, 500-byte, nil, unmarshalable} and pretty-print on/off (package switch or Response.PrettyPrint), then 0-5 body chunks of {0,1,10,300} bytes sent with Write or io.Copy (the underlying writer is an io.ReaderFrom, as net/http's is); every 9th sequence is a plain handler behind HandleWithFilter (WriteHeader + Write); every 6th handler declares a Content-Length of its own in the header; every 17th sequence is a routing failure (404 / 405) answered by the default error handler or by a custom ServiceErrorHandler that writes a page without setting a status; every 13th sequence runs on a container that is itself the plain handler (HandleWithFilter) of an outer container whose filter does the observing; statuses include 1xx, 204, 304, 99 and 1000; every 11th sequence ends in a handler panic with recovery on (if the observing filter resumes at all, what it reads is judged); three responses of 2 GiB - 1, 2 GiB + 1 MiB and 4 GiB + 5 bytes streamed in 64 MiB calls; without coding and with gzip/deflate in between. Faults: the underlying writer accepts exactly k bytes then fails every call, k enumerated over EVERY byte position of the fault-free output (call boundaries and inside calls). A trailing container filter reads StatusCode()/ContentLength(). Oracle: StatusCode() == status the underlying writer received (200 if none); without coding ContentLength() == bytes accepted and the call during which the writer first failed returns the injected error; with coding (fault-free) ContentLength() == plaintext length == decoded length. Non-trivial = a run with >= 1 body byte or a non-200 status; distinct by (first call, value, pretty, coding, fault class: none/at-boundary/inside-call, failing call kind).")
	ctx.Assume("at most one status-setting call, first in the sequence (as the property states)")
	defer func() { restful.PrettyPrintResponses = true }()
	if !ctx.Skip(0) {
		c15Huge(ctx)
	}
	seqs := ctx.N(500, 60000)
	statuses := []int{200, 201, 202, 400, 404, 500, 99, 1000, 100, 101, 102, 103, 199, 204, 206, 304, 418, 599}
	for si := 0; si < seqs; si++ {
		if ctx.Skip(si) {
			continue
		}
		r := ctx.Rand(si, "seq")
		s := &c15Seq{First: c15Firsts[si%len(c15Firsts)], Status: statuses[r.Intn(len(statuses))], Value: r.Pick([]string{"small", "big", "big", "nil", "bad"}),
			Pretty: r.Chance(1, 2), Accept: r.Pick([]string{"", "application/json", "application/xml", "application/xml;q=0.9, application/json;q=0.1"}), UseResp: r.Chance(1, 3), Adapter: r.Chance(1, 4), Copy: r.Chance(1, 3), HWF: si%9 == 4}
		if si%5 == 3 {
			s.Coding = r.Pick([]string{"gzip", "deflate"})
		}
		s.Panic = si%11 == 6 && !s.HWF
		s.Nested = si%13 == 7 && !s.HWF && !s.Panic && s.Coding == ""
		s.Declared = si%6 == 1 && s.Coding == ""
		if si%17 == 9 && !s.HWF && !s.Panic {
			// routing failures: the observing filter runs around the error response
			s.Unrouted = []string{"404", "405"}[(si/17)%2]
			s.CustomErr = (si/34)%2 == 1
			s.First, s.Writes = "none", nil
		}
		for i := 0; i < r.Intn(6); i++ {
			s.Writes = append(s.Writes, []int{0, 1, 10, 300}[r.Intn(4)])
		}
		if r.Chance(1, 12) {
			// one large Write call among them (sizes around the buffer sizes code likes to use)
			s.Writes = append(s.Writes, []int{512, 4096, 32768, 65536}[r.Intn(4)]+r.Intn(3)-1)
		}
		if !s.UseResp {
			restful.PrettyPrintResponses = s.Pretty
		}
		errInjected = errKinds[si%len(errKinds)]
		ctx.Case(si, core.JSON(s)+" error="+errInjected.Error())
		base := runC15(s, -1)
		ctx.Eval(1)
		total := base.fw.accepted
		judgeC15(ctx, si, s, base, -1, "none")
		// fault positions: every byte position of the fault-free output
		var ks []int
		if total > 5000 {
			// large outputs: call boundaries, the positions around powers of two, and a sparse grid
			pos := map[int]bool{0: true, total: true}
			acc := 0
			for ci := 0; ci < len(base.errs); ci++ {
				acc += base.fw.perCall[ci]
				for _, d := range []int{-1, 0, 1} {
					pos[acc+d] = true
				}
			}
			for p2 := 256; p2 <= total; p2 *= 2 {
				for _, d := range []int{-1, 0, 1} {
					pos[p2+d] = true
				}
			}
			for k := 0; k <= total; k++ {
				if (pos[k] || k%1499 == 0) && k >= 0 {
					ks = append(ks, k)
				}
			}
		} else if total <= 700 || !ctx.Quick() {
			for k := 0; k <= total; k++ {
				ks = append(ks, k)
			}
		} else {
			bounds := map[int]bool{0: true, total: true}
			acc := 0
			for ci := 0; ci < len(base.errs); ci++ {
				acc += base.fw.perCall[ci]
				for _, d := range []int{-1, 0, 1} {
					if acc+d >= 0 && acc+d <= total {
						bounds[acc+d] = true
					}
				}
			}
			for k := 0; k <= total; k++ {
				if bounds[k] || k%5 == 0 {
					ks = append(ks, k)
				}
			}
		}
		// which positions are call boundaries (for the evidence signature)
		boundary := map[int]bool{}
		acc := 0
		for ci := 0; ci < len(base.errs); ci++ {
			boundary[acc] = true
			acc += base.fw.perCall[ci]
		}
		for _, k := range ks {
			if k >= total && total > 0 {
				continue // accepts everything: same as fault-free
			}
			run := runC15(s, k)
			ctx.Eval(1)
			cls := "inside-call"
			if boundary[k] {
				cls = "at-boundary"
			}
			judgeC15(ctx, si, s, run, k, cls)
		}
		ctx.Count("fault_positions", len(ks))
	}
}

func judgeC15(ctx *core.Ctx, si int, s *c15Seq, run *c15Run, k int, cls string) {
	doc := map[string]interface{}{"sequence": s, "fault_after_bytes": k, "errors": fmtErrs(run.errs), "status_code_seen": run.statusSeen, "content_length_seen": run.lenSeen,
		"writer_status": run.fw.status, "writer_accepted": run.fw.accepted, "failed_at_call": run.fw.failedAtCall}
	cell := fmt.Sprintf("%s:coding=%s:pretty=%v", s.First, s.Coding, s.Pretty)
	if s.Adapter {
		cell += ":adapter"
	}
	if s.Copy {
		cell += ":iocopy"
	}
	if s.HWF {
		cell = "HandleWithFilter:" + cell
	}
	if s.Nested {
		cell = "nested-container:" + cell
	}
	if s.Declared {
		cell += ":declared-length"
	}
	if s.Unrouted != "" {
		cell = fmt.Sprintf("routing-failure-%s:custom-handler=%v:coding=%s", s.Unrouted, s.CustomErr, s.Coding)
	}
	if run.panicked != nil {
		ctx.Violation(si, "c15:panic:"+cell, fmt.Sprintf("panic: %v", run.panicked), doc)
		return
	}
	if s.Panic {
		if !run.observed {
			// the panic unwound through the observing filter: there is nothing it could have read
			ctx.Count("panicking_runs_where_the_observing_filter_did_not_resume", 1)
			return
		}
		cell += ":after-recovered-panic"
		// the recover handler wrote through the raw writer; what the filter reads must still be what the client got
		if run.statusSeen != run.fw.status && !(run.fw.status == 0 && run.statusSeen == 200) {
			ctx.Violation(si, "c15:status:"+cell, fmt.Sprintf("the filter resumed after a recovered panic and read StatusCode()=%d, the underlying writer received %d", run.statusSeen, run.fw.status), doc)
		}
		if s.Coding == "" && run.lenSeen != run.fw.accepted {
			ctx.Violation(si, "c15:length:"+cell, fmt.Sprintf("the filter resumed after a recovered panic and read ContentLength()=%d, the underlying writer accepted %d bytes", run.lenSeen, run.fw.accepted), doc)
		}
		return
	}
	wantStatus := run.fw.status
	if wantStatus == 0 {
		wantStatus = 200
	}
	if run.statusSeen != wantStatus {
		ctx.Violation(si, "c15:status:"+cell, fmt.Sprintf("StatusCode()=%d, the underlying writer received %d", run.statusSeen, wantStatus), doc)
	}
	if s.Coding == "" {
		if run.lenSeen != run.fw.accepted {
			ctx.Violation(si, "c15:length:"+cell+":"+cls, fmt.Sprintf("ContentLength()=%d, the underlying writer accepted %d bytes", run.lenSeen, run.fw.accepted), doc)
		}
		if fc := run.fw.failedAtCall; fc >= 0 && s.Unrouted == "" {
			if fc >= len(run.errs) || run.errs[fc] == nil || !errors.Is(run.errs[fc], errInjected) {
				kind := "Write"
				if fc == 0 && s.First != "none" {
					kind = s.First
				}
				var got error
				if fc < len(run.errs) {
					got = run.errs[fc]
				}
				ctx.Violation(si, "c15:error-swallowed:"+kind+":pretty="+fmt.Sprint(s.Pretty)+":value="+s.Value, fmt.Sprintf("the underlying writer failed during call #%d (%s) but that call returned %v", fc, kind, got), doc)
			}
			ctx.Count("failing_calls_checked", 1)
		}
	} else if k < 0 {
		// fault-free with coding: plaintext count
		plain, err := decodeComplete(s.Coding, run.fw.body)
		if run.fw.h.Get("Content-Encoding") == "" {
			plain, err = run.fw.body, nil
		}
		if err != nil {
			ctx.Violation(si, "c15:stream:"+cell, "encoded body does not decode: "+err.Error(), doc)
		} else if run.lenSeen != len(plain) {
			ctx.Violation(si, "c15:length-encoded:"+cell, fmt.Sprintf("ContentLength()=%d, %d plaintext bytes were sent (before coding)", run.lenSeen, len(plain)), doc)
		}
	}
	if run.fw.accepted > 0 || wantStatus != 200 {
		failKind := "-"
		if fc := run.fw.failedAtCall; fc >= 0 {
			failKind = "Write"
			if fc == 0 && s.First != "none" {
				failKind = s.First
			}
		}
		ctx.Sig(fmt.Sprintf("%s|%s|%s|%s", cell, s.Value, cls, failKind))
	}
	if ctx.WantSample() && k > 0 && len(run.errs) > 2 {
		ctx.Sample(doc)
	}
}

func fmtErrs(es []error) []string {
	out := make([]string, len(es))
	for i, e := range es {
		if e != nil {
			out[i] = e.Error()
		}
	}
	return out
}
