package props

import (
	"context"
	"fmt"
	"net/http"
	"strings"

	restful "github.com/emicklei/go-restful/v3"

	"verifharness/core"
	"verifharness/rt"
)

type c04Key struct{}

func init() {
	register("C03", c03)
	register("C04", c04)
	register("C14", c14)
}

func c03GenOpts(router string) rt.GenOpts {
	o := rt.GenOpts{Router: router, MaxSvcs: 4, MinSvcs: 2, MaxRoutes: 6, MaxRootLen: 2, MaxPathLen: 3, VarRoots: router == "curly", Conds: true, Media: true,
		Styles: false, Distinct: true, Nested: true, Methods: []string{"GET", "GET", "POST"}, StarMedia: true}
	return o
}

// routeDominates: a is strictly more specific than b in the sense C03 states: same number of segments, a has a
// literal segment wherever b has one and a literal segment somewhere b has a variable, "same shape otherwise":
// every literal part b carries around a variable (suffix, custom verb) is carried by a as well - otherwise the
// two templates are incomparable and the property does not rank them.
func routeDominates(a, b rt.Tmpl) bool {
	if len(a) != len(b) {
		return false
	}
	strict := false
	for i := range a {
		if b[i].Verb != "" && a[i].Verb != b[i].Verb {
			return false
		}
		if a[i].Verb != "" && b[i].Verb == "" {
			return false // shapes differ in the verb: not "same shape otherwise"
		}
		switch b[i].Kind {
		case rt.Lit:
			if a[i].Kind != rt.Lit {
				return false
			}
		case rt.VarSuf:
			if !(a[i].Kind == rt.Lit || (a[i].Kind == rt.VarSuf && a[i].Suf == b[i].Suf)) {
				return false
			}
		case rt.VarPre:
			if !(a[i].Kind == rt.Lit || (a[i].Kind == rt.VarPre && a[i].Lit == b[i].Lit)) {
				return false
			}
		default:
			if a[i].Kind == rt.VarSuf || a[i].Kind == rt.VarPre {
				return false // a literal suffix / prefix b does not have: shapes differ
			}
		}
		if a[i].Kind == rt.Lit && b[i].Kind != rt.Lit {
			strict = true
		}
	}
	return strict
}

func rootDominates(a, b rt.Tmpl) bool {
	if len(a) < len(b) {
		return false
	}
	strict := len(a) > len(b)
	for i := range b {
		if b[i].Kind == rt.Lit && a[i].Kind != rt.Lit {
			return false
		}
		if a[i].Kind == rt.Lit && b[i].Kind != rt.Lit {
			strict = true
		}
	}
	return strict
}

// crossingRoots: two WebServices whose root paths are drawn from ALL literal/variable shapes of 1-5 segments (sharing the
// literal wherever both have one), registered in both orders, probed with URLs that both roots match. Whatever ranking
// the router uses, the answer may not depend on the order (ties of a ranking function are where it would).
func crossingRoots(ctx *core.Ctx, ti int) {
	r := ctx.Rand(ti, "crossing-roots")
	for pair := 0; pair < 12; pair++ {
		n, m := r.Range(1, 5), r.Range(1, 5)
		la, lb := r.Intn(1<<uint(n)), r.Intn(1<<uint(m)) // bit i set: segment i is a literal
		max := n
		if m > max {
			max = m
		}
		lits := make([]string, max)
		for i := range lits {
			lits[i] = r.Pick(rt.Literals)
		}
		root := func(k, mask int, tag string) string {
			var b strings.Builder
			for i := 0; i < k; i++ {
				if mask&(1<<uint(i)) != 0 {
					b.WriteString("/" + lits[i])
				} else {
					fmt.Fprintf(&b, "/{%s%d}", tag, i)
				}
			}
			return b.String()
		}
		ra, rb := root(n, la, "a"), root(m, lb, "b")
		if ra == rb || la == 0 && lb == 0 && n == m {
			continue
		}
		if n == m && la == lb {
			continue // same shape: excluded by the property
		}
		build := func(first, second string) *restful.Container {
			c := restful.NewContainer()
			c.Router(restful.CurlyRouter{})
			for _, rp := range []string{first, second} {
				rp := rp
				ws := new(restful.WebService).Path(rp)
				for _, sub := range []string{"", "/{x}", "/{x}/{y}", "/{x}/{y}/{z}"} {
					sub := sub
					ws.Route(ws.GET(sub).To(func(req *restful.Request, resp *restful.Response) {
						resp.WriteHeader(200)
						fmt.Fprintf(resp, "root=%s route=%s params=%s", rp, sub, sortedParams(req.PathParameters()))
					}))
				}
				c.Add(ws)
			}
			return c
		}
		c1, c2 := build(ra, rb), build(rb, ra)
		for q := 0; q < 6; q++ {
			toks := make([]string, 0, max+3)
			for i := 0; i < max; i++ {
				switch {
				case i < n && la&(1<<uint(i)) != 0, i < m && lb&(1<<uint(i)) != 0:
					toks = append(toks, lits[i])
				default:
					toks = append(toks, r.Pick([]string{"v7", "x", "42", "abc"}))
				}
			}
			for e := 0; e < q%3; e++ {
				toks = append(toks, r.Pick([]string{"t1", "t2"}))
			}
			req := rt.Req{Method: "GET", Path: "/" + strings.Join(toks, "/")}
			o1, o2 := rt.Run(c1, rt.Dispatch, &req), rt.Run(c2, rt.Dispatch, &req)
			ctx.Eval(2)
			ctx.Count("crossing_root_probes", 1)
			s1 := fmt.Sprintf("%d %s", o1.Status, o1.Rec.Body.String())
			s2 := fmt.Sprintf("%d %s", o2.Status, o2.Rec.Body.String())
			if o1.Status == 200 {
				ctx.Sig(fmt.Sprintf("curly|crossing-roots|%d|%d", n, m))
			}
			if s1 != s2 {
				ctx.Violation(ti, "c03:order:curly:crossing-roots", fmt.Sprintf("roots %q and %q, GET %q: %s when registered in this order, %s in the other order", ra, rb, req.Path, s1, s2),
					map[string]interface{}{"roots": []string{ra, rb}, "request": req, "first_order": s1, "second_order": s2})
				return
			}
		}
	}
}

// c03: best match is never less specific than another eligible route; outcome independent of registration order.
func c03(ctx *core.Ctx) {
	quietLogs()
	ctx.Rule("tables with distinct (method, template) pairs and distinct root shapes (CurlyRouter: variable and nested literal roots; RouterJSR311: literal roots). Plus pairs of CurlyRouter root paths over all literal/variable shapes of 1-5 segments, registered in both orders and probed with URLs both match. Oracle 1: the same table built under k registration permutations of services and routes must give every request the same outcome signature. Every second table also under a HISTORY order: one route per WebService (dynamic routes) is registered only after the container served the whole request list with a stand-in in its place. Oracle 2: eligibility of a competing route/root is decided by the real code on a container holding only that route/service (and, for routes, also by the executable reference of the route declaration when its answer is determinate); the selected route (root) must not be dominated by an eligible one. Non-trivial = a request with >= 2 eligible routes or >= 2 matching roots; distinct by (router, level, selected shape, competitor shape).")
	ctx.Assume("excluded by the property: roots of the same literal/variable shape, same-method routes differing only in variable names",
		"root-level choice is made visible by marker routes GET / and GET /{tail:*} added to every service (workload choice, no hook)")
	tables := ctx.N(3000, 200000)
	perTable := ctx.N(30, 40)
	if !ctx.Quick() {
		perTable = 40
	}
	for ti := 0; ti < tables; ti++ {
		if ctx.Skip(ti) {
			continue
		}
		router := routerOf(ti)
		r := ctx.Rand(ti, "table")
		if ti%10 == 3 {
			crossingRoots(ctx, ti)
		}
		o3 := c03GenOpts(router)
		if m := ti % 40; m == 14 || m == 15 {
			// table shapes beyond what the small tables reach (long templates, 33-40 services, long media lists, many conditions, 130 routes)
			ctx.SetAdd("scaled_table_shapes", rt.Scale(&o3, ti/40))
		} else if m == 16 || m == 17 {
			// services with up to 130 routes on a handful of colliding paths get a share of their own (many candidates per request)
			ctx.SetAdd("scaled_table_shapes", rt.Scale(&o3, 4))
		} else if m == 18 || m == 19 {
			// and so do templates of 10-18 / 10-40 / 10-70 segments (plain and with skewed literal lengths)
			ctx.SetAdd("scaled_table_shapes", rt.Scale(&o3, 5*(ti/40)))
		}
		t := rt.GenTable(r, o3)
		ctx.Case(ti, "router="+router+" table="+core.JSON(t))
		// permutations
		k := 3
		if !ctx.Quick() {
			k = 6
		}
		var conts []*restful.Container
		var perms []string
		base := rt.DefaultBuild(router)
		conts = append(conts, rt.Build(t, base))
		perms = append(perms, "identity")
		for p := 1; p < k; p++ {
			bo := rt.DefaultBuild(router)
			bo.SvcOrder = r.Perm(len(t.Svcs))
			if p == 1 {
				// exact reversal is the classic counter-order
				for i := range bo.SvcOrder {
					bo.SvcOrder[i] = len(t.Svcs) - 1 - i
				}
			}
			bo.RouteOrder = make([][]int, len(t.Svcs))
			for i := range t.Svcs {
				bo.RouteOrder[i] = r.Perm(len(t.Svcs[i].Routes))
				if p == 1 {
					for j := range bo.RouteOrder[i] {
						bo.RouteOrder[i][j] = len(t.Svcs[i].Routes) - 1 - j
					}
				}
			}
			conts = append(conts, rt.Build(t, bo))
			perms = append(perms, fmt.Sprintf("svc=%v routes=%v", bo.SvcOrder, bo.RouteOrder))
		}
		// alone containers, built lazily
		aloneRoute := map[int]*restful.Container{}
		aloneSvc := map[int]*restful.Container{}
		mbo := rt.DefaultBuild(router)
		mbo.Markers = true
		marked := rt.Build(t, mbo)

		rr := ctx.Rand(ti, "req")
		reqs := make([]rt.Req, perTable)
		for qi := range reqs {
			reqs[qi] = rt.GenReq(rr, t, router)
		}
		// one more "registration order" is a history: on WebServices with dynamic routes one route of every service is
		// registered last of all, after the container has already served the whole request list with a stand-in in its place
		// (same number of routes) - the table is the same in the end, and so must every outcome be
		if (ti/2)%2 == 1 { // both routers (the router follows the parity of ti)
			hbo := rt.DefaultBuild(router)
			hbo.Dynamic = true
			hc, hws := rt.BuildWS(t, hbo)
			type late struct {
				ws *restful.WebService
				rs *rt.RouteSpec
			}
			var lates []late
			for si := range t.Svcs {
				if hws[si] == nil || len(t.Svcs[si].Routes) == 0 {
					continue
				}
				rs := &t.Svcs[si].Routes[r.Intn(len(t.Svcs[si].Routes))]
				for _, lr := range hws[si].Routes() {
					if id, ok := lr.Metadata["rid"].(int); ok && id == rs.ID {
						if hws[si].RemoveRoute(lr.Path, lr.Method) == nil {
							hws[si].Route(hws[si].Method(rs.Method).Path("/stand-in-for-a-late-route/{p}").To(func(*restful.Request, *restful.Response) {}))
							lates = append(lates, late{hws[si], rs})
						}
						break
					}
				}
			}
			for qi := range reqs {
				if _, clean := rt.Tokens(reqs[qi].Path); clean {
					rt.Run(hc, rt.Dispatch, &reqs[qi])
				}
			}
			for _, l := range lates {
				for _, lr := range l.ws.Routes() {
					if strings.HasSuffix(lr.Path, "/stand-in-for-a-late-route/{p}") {
						l.ws.RemoveRoute(lr.Path, lr.Method)
						break
					}
				}
				rt.AddRoute(l.ws, l.rs, hbo)
			}
			if len(lates) > 0 {
				conts = append(conts, hc)
				perms = append(perms, fmt.Sprintf("history: %d route(s) registered after the request list had been served once with a stand-in in their place", len(lates)))
				ctx.Count("history_built_orders", 1)
			}
		}
		for qi := 0; qi < perTable; qi++ {
			req := reqs[qi]
			if _, clean := rt.Tokens(req.Path); !clean {
				continue
			}
			ref := rt.Run(conts[0], rt.Dispatch, &req)
			ctx.Eval(1)
			for p := 1; p < len(conts); p++ {
				o := rt.Run(conts[p], rt.Dispatch, &req)
				ctx.Eval(1)
				if o.Sig() != ref.Sig() {
					ctx.Violation(ti, "c03:order:"+router, fmt.Sprintf("%s %q: outcome %s under registration order [%s] but %s under the original order", req.Method, req.Path, o.Sig(), perms[p], ref.Sig()),
						caseDoc{Router: router, Entry: rt.Dispatch, Table: t, Req: req, Obs: o, Want: ref.Sig(), Note: perms[p]})
				}
			}
			ctx.Count("permutation_comparisons", len(conts)-1)
			// Oracle 2, route level
			if rid := ref.RID(); rid >= 0 {
				s, sel := t.Route(rid)
				selFull := rt.Full(s, sel)
				eligible := 0
				for j := range s.Routes {
					o := &s.Routes[j]
					if o.ID == rid {
						continue
					}
					oFull := rt.Full(s, o)
					if !routeDominates(oFull, selFull) && !routeDominates(selFull, oFull) {
						// still counts as a competitor when eligible, but cannot refute
					}
					c := aloneRoute[o.ID]
					if c == nil {
						bo := rt.DefaultBuild(router)
						bo.Only = o.ID
						c = rt.Build(t, bo)
						aloneRoute[o.ID] = c
					}
					ao := rt.Run(c, rt.Dispatch, &req)
					ctx.Eval(1)
					if ao.RID() != o.ID {
						// second opinion: the executable reference of the route declaration says the competitor admits this
						// request (determinate match only) - then it is eligible whatever the real matcher thinks of it
						if routeDominates(oFull, selFull) && o.Method == req.Method {
							toks, _ := rt.Tokens(req.Path)
							if m, _ := rt.MatchFull(oFull, toks); m == rt.Yes && rt.CTAdmitted(o, &req) && rt.AcceptSatisfiable(o, &req) && rt.CondsHold(o, &req) {
								ctx.Violation(ti, "c03:route-specificity-by-reference:"+router, fmt.Sprintf("%s %q selected %s although the route %s, whose declaration admits the request, has a literal where it has a variable (a container holding only that route answers %s)", req.Method, req.Path, selFull, oFull, ao.Sig()),
									caseDoc{Router: router, Entry: rt.Dispatch, Table: t, Req: req, Obs: ref, Want: fmt.Sprintf("route %d", o.ID)})
							}
						}
						continue
					}
					eligible++
					ctx.Sig(fmt.Sprintf("%s|route|%s|%s", router, selFull.KindShape(), oFull.KindShape()))
					if routeDominates(oFull, selFull) {
						ctx.Violation(ti, "c03:route-specificity:"+router, fmt.Sprintf("%s %q selected %s although the eligible route %s has a literal where it has a variable", req.Method, req.Path, selFull, oFull),
							caseDoc{Router: router, Entry: rt.Dispatch, Table: t, Req: req, Obs: ref, Want: fmt.Sprintf("route %d", o.ID)})
					}
				}
				if eligible > 0 {
					ctx.Count("requests_with_competing_routes", 1)
				}
			}
			// Oracle 2, root level (GET only: the marker routes are GET)
			if len(t.Svcs) > 1 {
				greq := rt.Req{Method: "GET", Path: req.Path, Hdr: req.Hdr}
				mo := rt.Run(marked, rt.Dispatch, &greq)
				ctx.Eval(1)
				chosen := -1
				if rid := mo.RID(); rid >= rt.MarkerBase {
					chosen = rid - rt.MarkerBase
				} else if rid >= 0 {
					for i := range t.Svcs {
						for j := range t.Svcs[i].Routes {
							if t.Svcs[i].Routes[j].ID == rid {
								chosen = i
							}
						}
					}
				}
				if chosen >= 0 {
					comp := 0
					for i := range t.Svcs {
						if i == chosen {
							continue
						}
						c := aloneSvc[i]
						if c == nil {
							bo := rt.DefaultBuild(router)
							bo.Markers = true
							bo.OnlySvc = i
							c = rt.Build(t, bo)
							aloneSvc[i] = c
						}
						ao := rt.Run(c, rt.Dispatch, &greq)
						ctx.Eval(1)
						if ao.RID() < 0 {
							continue
						}
						comp++
						ctx.Sig(fmt.Sprintf("%s|root|%s|%s", router, t.Svcs[chosen].Root.Shape(), t.Svcs[i].Root.Shape()))
						if rootDominates(t.Svcs[i].Root, t.Svcs[chosen].Root) {
							ctx.Violation(ti, "c03:root-specificity:"+router, fmt.Sprintf("GET %q was given to the WebService on %s although %s also matches and is more specific", req.Path, t.Svcs[chosen].Root, t.Svcs[i].Root),
								caseDoc{Router: router, Entry: rt.Dispatch, Table: t, Req: greq, Obs: mo, Want: t.Svcs[i].Root.String()})
						}
					}
					if comp > 0 {
						ctx.Count("requests_with_competing_roots", 1)
					}
				}
			}
			if ctx.WantSample() && ref.RID() >= 0 {
				ctx.Sample(map[string]interface{}{"router": router, "request": req, "outcome": ref.Sig(), "permutations": perms})
			}
		}
	}
}

// substitute puts parameter values back into the template.
func substitute(full rt.Tmpl, params map[string]string) string {
	var parts []string
	for _, s := range full {
		var v string
		switch s.Kind {
		case rt.Lit:
			v = s.Lit
		case rt.VarSuf:
			v = params[s.Name] + s.Suf
		default:
			v = params[s.Name]
		}
		if s.Verb != "" {
			v += ":" + s.Verb
		}
		parts = append(parts, v)
	}
	return "/" + strings.Join(parts, "/")
}

// c04: path parameters are exactly the URL text they stand for.
func c04(ctx *core.Ctx) {
	quietLogs()
	ctx.Rule("every invocation observed while sending template-derived requests (values with '.', ':', '%', unicode, spaces, 80 chars; root variables combined with route variables; regex, suffix, verb, tail wildcard) to seeded tables under both routers, via Dispatch and ServeHTTP. Oracle: bound names == declared variables; each value == reference binding; substitution reproduces the path up to the trailing slash (the substitution law and the declared names also for hit paths with one empty segment inserted, '/a//b'). Non-trivial = an invocation of a route with >= 1 variable; distinct by (router, template kind-shape, trailing slash).")
	ctx.Assume("RouterJSR311 keeps a trailing slash inside a tail-wildcard value: compared modulo that slash (DESIGN §4.3)")
	tables := ctx.N(5000, 400000)
	perTable := ctx.N(40, 50)
	if !ctx.Quick() {
		perTable = 50
	}
	for ti := 0; ti < tables; ti++ {
		if ctx.Skip(ti) {
			continue
		}
		router := routerOf(ti)
		r := ctx.Rand(ti, "table")
		o := fullGenOpts(router)
		o.MaxRootLen = 3
		if m := ti % 40; m == 14 || m == 15 {
			// table shapes beyond what the small tables reach (long templates, 33-40 services, long media lists, many conditions, 130 routes)
			ctx.SetAdd("scaled_table_shapes", rt.Scale(&o, ti/40))
		} else if m == 16 || m == 17 {
			// services with up to 130 routes on a handful of colliding paths get a share of their own (many candidates per request)
			ctx.SetAdd("scaled_table_shapes", rt.Scale(&o, 4))
		} else if m == 18 || m == 19 {
			// and so do templates of 10-18 / 10-40 / 10-70 segments (plain and with skewed literal lengths)
			ctx.SetAdd("scaled_table_shapes", rt.Scale(&o, 5*(ti/40)))
		}
		t := rt.GenTable(r, o)
		ctx.Case(ti, "router="+router+" table="+core.JSON(t))
		bo := rt.DefaultBuild(router)
		bo.Switched = ti%8 == 2 || ti%8 == 5 // the router was configured back and forth before use (both parities = both routers)
		c := rt.Build(t, bo)
		if ti%8 == 1 || ti%8 == 4 {
			// an adapted net/http middleware that hands a derived request on (r.WithContext), in front of every route
			c.Filter(restful.HttpMiddlewareHandlerToFilter(func(next http.Handler) http.Handler {
				return http.HandlerFunc(func(w http.ResponseWriter, r *http.Request) {
					r2 := r.WithContext(context.WithValue(r.Context(), c04Key{}, 1))
					if ti%8 == 4 {
						// a URL rewriting middleware (http.StripPrefix and the like): the rest of the chain sees another path;
						// the parameters stay those of the request that was routed
						u := *r.URL
						u.Path, u.RawPath = "/rewritten/by/a/middleware", ""
						r2.URL = &u
					}
					next.ServeHTTP(w, r2)
				})
			}))
		}
		rr := ctx.Rand(ti, "req")
		var reqs []rt.Req
		for qi := 0; qi < perTable; qi++ {
			req := rt.GenReq(rr, t, router)
			if _, clean := rt.Tokens(req.Path); !clean {
				continue
			}
			entry := rt.Dispatch
			if qi%5 == 4 {
				entry = rt.ServeHTTP
			}
			out := rt.Run(c, entry, &req)
			ctx.Eval(1)
			judgeC04(ctx, ti, t, router, entry, &req, out)
			reqs = append(reqs, req)
			if toks, _ := rt.Tokens(req.Path); len(out.Obs.Invokes) > 0 && len(toks) >= 2 && qi%3 == 1 {
				// the same path with one empty segment inside ("/a//b"): whatever route the framework runs for it,
				// the values it binds put back into that route's template give the path that was requested
				k := rr.Range(1, len(toks)-1)
				req2 := req
				req2.Path = "/" + strings.Join(toks[:k], "/") + "//" + strings.Join(toks[k:], "/")
				if strings.HasSuffix(req.Path, "/") {
					req2.Path += "/"
				}
				req2.RawPath, req2.Class = "", "inner-empty-segment"
				out2 := rt.Run(c, rt.Dispatch, &req2)
				ctx.Eval(1)
				ctx.Count("requests_with_an_empty_inner_segment", 1)
				judgeC04(ctx, ti, t, router, rt.Dispatch, &req2, out2)
			}
		}
		if ti%3 == 0 {
			// the same bindings while 8 goroutines share the container (parameters belong to their own request)
			concurrentBatch(c, rt.Dispatch, reqs, 8, func(i int, out *rt.Outcome) {
				ctx.Eval(1)
				ctx.Count("concurrent_requests", 1)
				judgeC04(ctx, ti, t, router, rt.Dispatch+"-concurrent", &reqs[i], out)
			})
		}
	}
}

// judgeC04 compares the parameters every invoked handler saw with the reference bindings.
func judgeC04(ctx *core.Ctx, ti int, t *rt.Table, router, entry string, reqp *rt.Req, out *rt.Outcome) {
	req := *reqp
	tokens, _ := rt.Tokens(req.Path)
	{
		{
			for _, iv := range out.Obs.Invokes {
				s, rs := t.Route(iv.RID)
				if rs == nil {
					continue
				}
				full := rt.Full(s, rs)
				if req.Class == "inner-empty-segment" {
					// the reference matcher is silent on empty segments; the substitution law and the declared names are not
					ctx.Count("invocations_on_paths_with_an_empty_inner_segment", 1)
					doc := caseDoc{Router: router, Entry: entry, Table: t, Req: req, Obs: out}
					declared := map[string]bool{}
					for _, n := range full.VarNames() {
						declared[n] = true
					}
					for name := range iv.Params {
						if !declared[name] {
							ctx.Violation(ti, "c04:extra-name:"+router, fmt.Sprintf("parameter %q is bound but not declared by %s", name, full), doc)
						}
					}
					if sub := substitute(full, iv.Params); strings.TrimSuffix(sub, "/") != strings.TrimSuffix(req.Path, "/") {
						ctx.Violation(ti, "c04:roundtrip-empty-segment:"+router+":"+full.KindShape(), fmt.Sprintf("substituting %v into %s gives %q, request path is %q", iv.Params, full, sub, req.Path), doc)
					}
					continue
				}
				tri, binds := rt.MatchFull(full, tokens)
				if tri != rt.Yes && full.HasKind(rt.VarPre) {
					// the route function DID run on a prefix{v} template: then the value is the text behind the prefix
					tri, binds = rt.MatchFullLoose(full, tokens)
					ctx.Count("prefix_variable_invocations", 1)
				}
				if tri != rt.Yes {
					ctx.Count("unspecified_skipped", 1)
					continue
				}
				slash := strings.HasSuffix(req.Path, "/")
				if len(full.VarNames()) > 0 {
					ctx.Sig(fmt.Sprintf("%s|%s|slash=%v", router, full.KindShape(), slash))
					ctx.Count("bindings_checked", len(binds))
				}
				doc := caseDoc{Router: router, Entry: entry, Table: t, Req: req, Obs: out, Want: binds}
				// names
				for name := range iv.Params {
					if _, ok := binds[name]; !ok {
						ctx.Violation(ti, "c04:extra-name:"+router, fmt.Sprintf("parameter %q is bound but not declared by %s", name, full), doc)
					}
				}
				for name, want := range binds {
					got, ok := iv.Params[name]
					if !ok {
						ctx.Violation(ti, "c04:missing-name:"+router+":"+full.KindShape(), fmt.Sprintf("variable %q of %s is not bound for %q", name, full, req.Path), doc)
						continue
					}
					if got != want {
						isWild := len(full) > 0 && full[len(full)-1].Kind == rt.Wild && full[len(full)-1].Name == name
						if isWild && router == "jsr311" && slash && got == want+"/" {
							ctx.Count("jsr311_wildcard_trailing_slash", 1)
							continue
						}
						ctx.Violation(ti, "c04:value:"+router+":"+full.KindShape(), fmt.Sprintf("%s on %q: %s=%q, URL text is %q", full, req.Path, name, got, want), doc)
					}
				}
				// substitution law, independent of the reference bindings
				sub := substitute(full, iv.Params)
				if strings.TrimSuffix(sub, "/") != strings.TrimSuffix(req.Path, "/") {
					ctx.Violation(ti, "c04:roundtrip:"+router+":"+full.KindShape(), fmt.Sprintf("substituting %v into %s gives %q, request path is %q", iv.Params, full, sub, req.Path), doc)
				}
				if ctx.WantSample() && len(binds) > 1 {
					ctx.Sample(map[string]interface{}{"router": router, "template": full.String(), "path": req.Path, "params": iv.Params})
				}
			}
		}
	}
}

// muxOwns tells whether net/http's ServeMux hands BOTH p and p+"/" to the container's dispatcher. It replays the
// framework's registration policy in Add order: a service registers the fixed prefix of its root path (and prefix+"/"
// when the prefix does not end in a slash), a root starting with a variable (or "/") registers "/", and once "/" is
// registered later services register nothing. On the resulting pattern set net/http itself redirects p when only
// p+"/" is a pattern; such pairs are net/http's business, not the framework's (DESIGN section 4.9).
func muxOwns(t *rt.Table, p string) bool {
	for _, tok := range strings.Split(p, "/") {
		if tok == "." || tok == ".." {
			return false // net/http cleans such paths with a redirect of its own
		}
	}
	patterns := map[string]bool{}
	for i := range t.Svcs {
		if patterns["/"] {
			break
		}
		root := t.Svcs[i].RenderRoot()
		fixed := root
		if k := strings.Index(root, "{"); k >= 0 {
			fixed = root[:k]
		}
		if fixed == "/" || fixed == "" {
			patterns["/"] = true
			continue
		}
		patterns[fixed] = true
		if !strings.HasSuffix(fixed, "/") {
			patterns[fixed+"/"] = true
		}
	}
	subtree := func(path string) bool {
		for pat := range patterns {
			if strings.HasSuffix(pat, "/") && strings.HasPrefix(path, pat) {
				return true
			}
		}
		return false
	}
	// p: an exact pattern, or (no redirect pending) some subtree pattern above it
	if !patterns[p] {
		if patterns[p+"/"] {
			return false // net/http answers 301 to p+"/"
		}
		if !subtree(p) {
			return false
		}
	}
	return subtree(p + "/")
}

// c14: by default a trailing slash on the request path changes nothing.
func c14(ctx *core.Ctx) {
	quietLogs()
	ctx.Rule("pairs (p, p+'/') dispatched to the same container (Dispatch; every 3rd pair also through ServeHTTP where the framework owns both ServeMux patterns); p has >= 1 non-empty segment and no trailing slash; all request kinds of C02 (hits, near misses, adversarial). CurlyRouter on every template form, RouterJSR311 on tables without tail wildcard. Oracle: equal status, invoked route, parameters and Allow set. Non-trivial = a pair whose outcome is not a root-level 404; distinct by (router, outcome class, template kind-shape or request class).")
	ctx.Assume("TrimRightSlashEnabled is left at its default (true)")
	if !restful.TrimRightSlashEnabled {
		ctx.Violation(-1, "c14:default-strategy", "TrimRightSlashEnabled is not true by default", nil)
	}
	tables := ctx.N(5000, 400000)
	perTable := ctx.N(40, 60)
	if !ctx.Quick() {
		perTable = 60
	}
	for ti := 0; ti < tables; ti++ {
		if ctx.Skip(ti) {
			continue
		}
		router := routerOf(ti)
		r := ctx.Rand(ti, "table")
		o := fullGenOpts(router)
		withOptions := ti%3 == 1
		if router == "jsr311" || withOptions {
			// the OPTIONS filter computes its Allow header with the regular-expression engine of RouterJSR311,
			// whatever router the container uses: same restriction as for that router
			o.NoWild = true
			o.NoCurlyOnly = true
		}
		if m := ti % 40; m == 14 || m == 15 {
			// table shapes beyond what the small tables reach (long templates, 33-40 services, long media lists, many conditions, 130 routes)
			ctx.SetAdd("scaled_table_shapes", rt.Scale(&o, ti/40))
		} else if m == 16 || m == 17 {
			// services with up to 130 routes on a handful of colliding paths get a share of their own (many candidates per request)
			ctx.SetAdd("scaled_table_shapes", rt.Scale(&o, 4))
		} else if m == 18 || m == 19 {
			// and so do templates of 10-18 / 10-40 / 10-70 segments (plain and with skewed literal lengths)
			ctx.SetAdd("scaled_table_shapes", rt.Scale(&o, 5*(ti/40)))
		}
		t := rt.GenTable(r, o)
		ctx.Case(ti, "router="+router+" table="+core.JSON(t))
		bo14 := rt.DefaultBuild(router)
		bo14.Switched = ti%8 == 2 || ti%8 == 5 // the container's router was configured back and forth before use
		bo14.Dynamic = withOptions && (ti/3)%2 == 1
		c, wss := rt.BuildWS(t, bo14)
		if withOptions {
			// the Allow header the OPTIONS filter computes is also "decided by the framework"
			c.Filter(c.OPTIONSFilter)
		}
		if bo14.Dynamic {
			// history: OPTIONS for p alone, then a route is added to a registered WebService, then the pairs
			pr := ctx.Rand(ti, "req")
			for qi := 0; qi < perTable; qi += 2 {
				q := rt.GenReq(pr, t, router)
				q.Method = "OPTIONS"
				q.Path = strings.TrimRight(q.Path, "/")
				if strings.HasPrefix(q.Path, "/") && q.Path != "" {
					rt.Run(c, rt.Dispatch, &q)
				}
			}
			si := r.Intn(len(t.Svcs))
			if len(t.Svcs[si].Routes) > 0 && wss[si] != nil {
				nr := t.Svcs[si].Routes[r.Intn(len(t.Svcs[si].Routes))]
				nr.ID = 9000 + ti
				nr.Method = r.Pick(rt.Methods)
				t.Svcs[si].Routes = append(t.Svcs[si].Routes, nr)
				rt.AddRoute(wss[si], &t.Svcs[si].Routes[len(t.Svcs[si].Routes)-1], bo14)
				ctx.Count("route_added_after_options_probe", 1)
			}
		}
		rr := ctx.Rand(ti, "req")
		deepAt := -1
		if ti%5 == 0 {
			deepAt = perTable // one extra round of very deep paths below a tail wildcard
		}
		for qi := 0; qi < perTable+len(rt.DeepCounts); qi++ {
			var req rt.Req
			if qi >= perTable {
				if deepAt < 0 {
					break
				}
				var ok bool
				if req, ok = rt.DeepReq(rr, t, rt.DeepCounts[qi-perTable]); !ok {
					break
				}
				ctx.Count("deep_path_pairs", 1)
			} else {
				req = rt.GenReq(rr, t, router)
			}
			if withOptions && qi%2 == 0 {
				req.Method = "OPTIONS"
			}
			p := req.Path
			for strings.HasSuffix(p, "/") {
				p = p[:len(p)-1]
			}
			if !strings.HasPrefix(p, "/") || strings.Trim(p, "/") == "" {
				continue
			}
			if strings.Contains(p, "\n") {
				continue // '.' in the routers' regular expressions does not match a newline: unspecified zone
			}
			a := req.WithPath(p)
			b := req.WithPath(p + "/")
			oa := rt.Run(c, rt.Dispatch, &a)
			ob := rt.Run(c, rt.Dispatch, &b)
			ctx.Eval(2)
			if oa.Status != 404 || len(oa.Obs.Invokes) > 0 {
				shape := req.Class
				if rid := oa.RID(); rid >= 0 {
					s, rs := t.Route(rid)
					shape = rt.Full(s, rs).KindShape()
				}
				ctx.Sig(fmt.Sprintf("%s|%s|%s", router, oa.Class(), shape))
			}
			if withOptions && req.Method == "OPTIONS" {
				ctx.Count("options_filter_pairs", 1)
				ha, hb := oa.Rec.Hdr(), ob.Rec.Hdr()
				if setOf(ha["Allow"]) != setOf(hb["Allow"]) || setOf(ha["Access-Control-Allow-Methods"]) != setOf(hb["Access-Control-Allow-Methods"]) {
					ctx.Violation(ti, "c14:options-allow:"+router, fmt.Sprintf("OPTIONS %q -> Allow %v but %q -> Allow %v", p, ha["Allow"], p+"/", hb["Allow"]),
						caseDoc{Router: router, Entry: rt.Dispatch, Table: t, Req: b, Obs: ob, Want: ha["Allow"]})
				}
				if len(ha["Allow"]) > 0 && ha["Allow"][0] != "" {
					ctx.Sig(fmt.Sprintf("%s|options|%d", router, len(strings.Split(ha["Allow"][0], ","))))
				}
			}
			if _, clean := rt.Tokens(p); clean && qi%3 == 0 && muxOwns(t, p) {
				// the same pair through ServeHTTP wherever the framework owns both ServeMux patterns
				sa := rt.Run(c, rt.ServeHTTP, &a)
				sb := rt.Run(c, rt.ServeHTTP, &b)
				ctx.Eval(2)
				ctx.Count("servehttp_pairs", 1)
				if sa.Sig() != sb.Sig() {
					ctx.Violation(ti, "c14:servehttp:"+router+":"+sa.Class()+"-vs-"+sb.Class(), fmt.Sprintf("via ServeHTTP %s %q -> %s but %q -> %s", req.Method, p, sa.Sig(), p+"/", sb.Sig()),
						caseDoc{Router: router, Entry: rt.ServeHTTP, Table: t, Req: b, Obs: sb, Want: sa.Sig()})
				}
			}
			if oa.Sig() != ob.Sig() {
				ctx.Violation(ti, "c14:"+router+":"+oa.Class()+"-vs-"+ob.Class(), fmt.Sprintf("%s %q -> %s but %q -> %s", req.Method, p, oa.Sig(), p+"/", ob.Sig()),
					caseDoc{Router: router, Entry: rt.Dispatch, Table: t, Req: b, Obs: ob, Want: oa.Sig()})
			}
			if ctx.WantSample() && oa.RID() >= 0 {
				ctx.Sample(map[string]interface{}{"router": router, "p": p, "outcome_p": oa.Sig(), "outcome_p_slash": ob.Sig()})
			}
		}
	}
}
