package props

import (
	"fmt"
	"net/http"
	"runtime"
	"sort"
	"strings"
	"sync"
	"sync/atomic"

	restful "github.com/emicklei/go-restful/v3"

	"verifharness/core"
	"verifharness/rt"
)

func init() {
	register("C08", c08)
	register("C09", c09)
}

type corsCfg struct {
	Domains []string `json:"allowed_domains"`
	Pred    []string `json:"predicate_accepts,omitempty"` // nil: no AllowedDomainFunc
	HasPred bool     `json:"has_predicate"`
	Cookies bool     `json:"cookies_allowed"`
	Expose  []string `json:"expose_headers,omitempty"`
	MaxAge  int      `json:"max_age"`
	Headers []string `json:"allowed_headers,omitempty"`
	Methods []string `json:"allowed_methods,omitempty"`
	// EmptyNonNil: lists that are empty are handed over as empty non-nil slices ([]string{}, what decoding "[]" from a
	// configuration file or filtering a list down to nothing yields) instead of nil
	EmptyNonNil bool `json:"empty_lists_are_non_nil,omitempty"`
}

var originPool = []string{"http://example.com", "https://app.example.com", "http://localhost:8080", "https://a.b-c.io", "HTTP://Mixed.Example.ORG", "http://10.0.0.1"}

type predTap struct {
	mu    sync.Mutex
	calls map[string]bool // argument -> result, for the request in flight (sequential use) or all (concurrent use)
}

func (p *predTap) reset() {
	p.mu.Lock()
	p.calls = map[string]bool{}
	p.mu.Unlock()
}

func genCorsCfg(r *core.Rand) *corsCfg {
	c := &corsCfg{}
	n := r.Intn(5)
	for i := 0; i < n; i++ {
		c.Domains = append(c.Domains, r.Pick(originPool))
	}
	if n > 0 && r.Chance(1, 8) {
		c.Domains = append(c.Domains, ".*")
	}
	switch r.Intn(12) {
	case 0:
		c.Domains = []string{""} // what strings.Split("", ",") yields: a configured list that allows nobody
	case 1:
		c.Domains = append(c.Domains, " "+r.Pick(originPool)+" ") // an entry is compared as a whole, blanks included
	case 2:
		c.Domains = append(c.Domains, "", " ")
	case 3:
		// entries that look like patterns but are not the wildcard entry ".*": each is compared as a whole like any other
		c.Domains = append(c.Domains, r.Pick([]string{"http://localhost:*", "*", "https://*.example.com", "http://example.com.*", ".*.example.com", "http://10.0.0.*"}))
	}
	if r.Chance(1, 3) {
		c.HasPred = true
		for i := 0; i < r.Range(0, 2); i++ {
			c.Pred = append(c.Pred, strings.ToLower(r.Pick(originPool)))
		}
	}
	c.Cookies = r.Chance(1, 2)
	if r.Chance(1, 2) {
		c.Expose = []string{"X-My-Header", "X-Other"}[:r.Range(1, 2)]
	}
	if r.Chance(1, 2) {
		c.MaxAge = r.Range(1, 3600)
	}
	switch r.Intn(5) {
	case 0:
		c.Headers = []string{"Content-Type", "Accept"}
	case 1:
		c.Headers = []string{"X-Custom", "content-type", "Authorization"}
	case 2:
		c.Headers = []string{"*"}
	case 3:
		c.Headers = []string{"X-Authorization-Hint", "Accept-Language", "Content-Type"} // names that CONTAIN other header names
	}
	if r.Chance(1, 2) && len(c.Headers) == 0 {
		switch r.Intn(2) {
		case 0:
			c.Headers = []string{"X-Authorization-Hint", "Accept-Language"}
		}
	}
	switch r.Intn(4) {
	case 0:
		c.Methods = []string{"GET", "POST"}
	case 1:
		c.Methods = []string{"GET", "PUT", "DELETE", "PATCH"}
	case 2:
		c.Methods = []string{"get", "POST"}
	}
	c.EmptyNonNil = r.Chance(1, 3)
	if r.Chance(1, 10) {
		// long lists: the entry that matters sits behind many others
		n := []int{9, 17, 33, 70}[r.Intn(4)]
		var many []string
		for i := 0; i < n; i++ {
			many = append(many, fmt.Sprintf("http://h%d.example.com", i))
		}
		c.Domains = append(many, c.Domains...)
		if len(c.Headers) > 0 && !exactIn("*", c.Headers) {
			var hs []string
			for i := 0; i < n; i++ {
				hs = append(hs, fmt.Sprintf("X-H%d", i))
			}
			c.Headers = append(hs, c.Headers...)
		}
	}
	return c
}

func nonNil(l []string, on bool) []string {
	if on && len(l) == 0 {
		return []string{}
	}
	return l
}

func (c *corsCfg) build(cont *restful.Container, tap *predTap) restful.CrossOriginResourceSharing {
	e := c.EmptyNonNil
	x := restful.CrossOriginResourceSharing{AllowedDomains: nonNil(c.Domains, e), CookiesAllowed: c.Cookies, ExposeHeaders: nonNil(c.Expose, e), MaxAge: c.MaxAge,
		AllowedHeaders: nonNil(c.Headers, e), AllowedMethods: nonNil(c.Methods, e), Container: cont}
	if c.HasPred {
		set := map[string]bool{}
		for _, p := range c.Pred {
			set[p] = true
		}
		x.AllowedDomainFunc = func(origin string) bool {
			runtime.Gosched()
			res := set[strings.ToLower(origin)]
			if tap != nil {
				tap.mu.Lock()
				tap.calls[origin] = res
				tap.mu.Unlock()
			}
			return res
		}
	}
	return x
}

// verdict of the reference policy
const (
	originAllowed    = "allowed"
	originNotAllowed = "not-allowed"
)

func (c *corsCfg) policy(origin string) string {
	if origin == "" {
		return originNotAllowed
	}
	if len(c.Domains) == 0 && !c.HasPred {
		return originAllowed
	}
	for _, d := range c.Domains {
		// "ignoring case" = equal after lower-casing; Unicode case FOLDING would also identify look-alikes such as
		// U+017F (long s) with s - a grant the more careful reading does not give
		if d == ".*" || strings.ToLower(d) == strings.ToLower(origin) {
			return originAllowed
		}
	}
	if c.HasPred {
		for _, p := range c.Pred {
			if p == strings.ToLower(origin) {
				return originAllowed
			}
		}
	}
	return originNotAllowed
}

func originVariants(r *core.Rand, cfg *corsCfg) []string {
	out := []string{"", "null", "http://evil.com", "http://üñí.example", "*", ".*", " ", "http://verif.test", "https://verif.test", "verif.test"}
	entries := append([]string{}, cfg.Domains...)
	entries = append(entries, cfg.Pred...)
	entries = append(entries, r.Pick(originPool))
	for _, e := range entries {
		if t := strings.TrimSpace(e); t != e && t != "" {
			out = append(out, t)
		}
		if e == ".*" || len(e) < 2 {
			continue
		}
		out = append(out, strings.Replace(e, "s", "\u017f", 1), strings.Replace(e, "k", "\u212a", 1), e, strings.ToUpper(e), strings.ToLower(e), e[:len(e)-1], e[1:], e+".evil.com", e+"x", "x"+e, "evil-"+e, e+":8443", e+"/",
			strings.Replace(e, ".", "x", 1), strings.Replace(e, "http://", "https://", 1), strings.Replace(e, "https://", "http://", 1), e+" ", " "+e, e+","+e, e+"\t")
		if i := strings.Index(e, "://"); i > 0 {
			out = append(out, e[i+3:], e[:i+3]+"evil.com."+e[i+3:], e[:i+3]+e[i+3:]+".")
		}
	}
	return out
}

func acHeaders(h http.Header) map[string][]string {
	out := map[string][]string{}
	for k, v := range h {
		if strings.HasPrefix(k, "Access-Control-") {
			out[k] = v
		}
	}
	return out
}

func headerSig(h http.Header) string {
	keys := make([]string, 0, len(h))
	for k := range h {
		keys = append(keys, k)
	}
	sort.Strings(keys)
	var b strings.Builder
	for _, k := range keys {
		fmt.Fprintf(&b, "%s=%q;", k, h[k])
	}
	return b.String()
}

func fullSig(o *rt.Outcome) string {
	return fmt.Sprintf("%s hdr[%s] body=%q sels=%d", o.Sig(), headerSig(o.Rec.Hdr()), o.Rec.Body.String(), len(o.Obs.Sels))
}

type corsPair struct {
	wsWith, wsTwin, wsPlain []*restful.WebService
	cfg                     *corsCfg
	t                       *rt.Table
	with                    *restful.Container
	twin                    *restful.Container
	plain                   *restful.Container // no filters at all (method probing)
	tap                     *predTap
	cors                    restful.CrossOriginResourceSharing
}

// corsDynamic: whether the WebServices of the next pairs enable dynamic routes. Most applications never do; their
// WebServices hand the framework's internals (Routes()) to whoever asks, so a preflight must leave them as they were.
var corsDynamic = true

func buildCorsPair(r *core.Rand, router string) *corsPair {
	p := &corsPair{cfg: genCorsCfg(r), tap: &predTap{calls: map[string]bool{}}}
	o := commonGenOpts()
	o.OddMethods = false
	p.t = rt.GenTable(r, o)
	// now and then an explicit OPTIONS route
	if r.Chance(1, 4) {
		s := &p.t.Svcs[0]
		s.Routes[0].Method = "OPTIONS"
	}
	bo := rt.DefaultBuild(router)
	bo.Dynamic = corsDynamic
	p.with, p.wsWith = rt.BuildWS(p.t, bo)
	p.cors = p.cfg.build(p.with, p.tap)
	// a plain handler registered BEFORE the first container filter exists: the filters that are there when a request
	// arrives apply to it all the same
	p.with.HandleWithFilter("/hwf-early/", http.HandlerFunc(hwfEarly))
	p.with.Filter(presetACAO)
	p.with.Filter(p.cors.Filter)
	p.with.Filter(rt.SelFilter("after-cors"))
	p.twin, p.wsTwin = rt.BuildWS(p.t, bo)
	p.twin.HandleWithFilter("/hwf-early/", http.HandlerFunc(hwfEarly))
	p.twin.Filter(rt.SelFilter("after-cors"))
	p.plain, p.wsPlain = rt.BuildWS(p.t, bo)
	return p
}

func hwfEarly(w http.ResponseWriter, r *http.Request) {
	if o := rt.ObsOf(r); o != nil {
		o.Invokes = append(o.Invokes, rt.Invoke{RID: 7777})
	}
	w.WriteHeader(200)
	w.Write([]byte("early-handler"))
}

// presetACAO is an outer layer that already put an Access-Control-Allow-Origin on the response (on demand of the request).
func presetACAO(req *restful.Request, resp *restful.Response, chain *restful.FilterChain) {
	if v := req.Request.Header.Get("X-Preset-Acao"); v != "" {
		resp.Header().Set("Access-Control-Allow-Origin", v)
	}
	chain.ProcessFilter(req, resp)
}

func corsReq(method, path, origin string, acrm, acrh string) rt.Req {
	req := rt.Req{Method: method, Path: path, Hdr: map[string]string{}}
	if origin != "" {
		req.Hdr["Origin"] = origin
	}
	if acrm != "" {
		req.Hdr["Access-Control-Request-Method"] = acrm
	}
	if acrh != "" {
		req.Hdr["Access-Control-Request-Headers"] = acrh
	}
	return req
}

// c08: CORS headers are granted only to allowed origins, echoing the origin.
// twoCorsFilters: a container-level and a WebService-level CORS filter with configurations of their own see the same
// request. Each decides for itself: Allow-Origin appears once per filter that allows the origin (verbatim), credentials once
// per allowing filter that has cookies configured.
func twoCorsFilters(ctx *core.Ctx, ci int, r *core.Rand, cfg1 *corsCfg) {
	cfg2 := genCorsCfg(r)
	c := restful.NewContainer()
	f1 := cfg1.build(c, &predTap{calls: map[string]bool{}})
	f2 := cfg2.build(c, &predTap{calls: map[string]bool{}})
	c.Filter(f1.Filter)
	ws := new(restful.WebService).Path("/two")
	ws.Filter(f2.Filter)
	ws.Route(ws.GET("/x").To(func(req *restful.Request, resp *restful.Response) { resp.Write([]byte("ok")) }))
	c.Add(ws)
	origins := append(originVariants(r, cfg1), originVariants(r, cfg2)...)
	for _, origin := range origins {
		req := corsReq("GET", "/two/x", origin, "", "")
		out := rt.Run(c, rt.Dispatch, &req)
		ctx.Eval(1)
		ctx.Count("requests_through_two_cors_filters", 1)
		a1, a2 := cfg1.policy(origin) == originAllowed, cfg2.policy(origin) == originAllowed
		wantO, wantC := 0, 0
		for _, x := range []struct {
			allowed bool
			cfg     *corsCfg
		}{{a1, cfg1}, {a2, cfg2}} {
			if x.allowed {
				wantO++
				if x.cfg.Cookies {
					wantC++
				}
			}
		}
		h := out.Rec.Hdr()
		gotO, gotC := h["Access-Control-Allow-Origin"], h["Access-Control-Allow-Credentials"]
		doc := map[string]interface{}{"container_filter": cfg1, "service_filter": cfg2, "origin": origin, "allow_origin": gotO, "allow_credentials": gotC}
		if len(gotO) > wantO || len(gotC) > wantC {
			ctx.Violation(ci, "c08:two-filters:grant-beyond-configuration", fmt.Sprintf("Origin %q: container filter allows=%v (cookies %v), service filter allows=%v (cookies %v); the response carries Allow-Origin %q and Allow-Credentials %q", origin, a1, cfg1.Cookies, a2, cfg2.Cookies, gotO, gotC), doc)
			return
		}
		for _, v := range gotO {
			if v != origin {
				ctx.Violation(ci, "c08:two-filters:echo", fmt.Sprintf("Allow-Origin %q for Origin %q", v, origin), doc)
				return
			}
		}
	}
}

// serviceLevelCors: every WebService of a container has a CORS filter of its own that allows exactly its own front end;
// three container filters run before them. Requests for all services are in flight at once: the grant a response carries is
// decided by the filter of the service that was addressed, for the request's own origin, whatever the others are doing.
func serviceLevelCors(ctx *core.Ctx, ci int, router string) {
	c := restful.NewContainer()
	if router == "jsr311" {
		c.Router(restful.RouterJSR311{})
	}
	for k := 0; k < 3; k++ {
		c.Filter(func(req *restful.Request, resp *restful.Response, chain *restful.FilterChain) {
			runtime.Gosched()
			chain.ProcessFilter(req, resp)
		})
	}
	const svcs = 4
	front := func(i int) string { return fmt.Sprintf("https://front%d.example.org", i) }
	for i := 0; i < svcs; i++ {
		ws := new(restful.WebService).Path(fmt.Sprintf("/svc%d", i))
		cors := restful.CrossOriginResourceSharing{AllowedDomains: []string{front(i)}, CookiesAllowed: i%2 == 0, Container: c}
		ws.Filter(cors.Filter)
		i := i
		ws.Route(ws.GET("/x").Filter(func(req *restful.Request, resp *restful.Response, chain *restful.FilterChain) {
			resp.AddHeader("X-Route-Of", fmt.Sprint(i))
			chain.ProcessFilter(req, resp)
		}).To(func(req *restful.Request, resp *restful.Response) { resp.Write([]byte(fmt.Sprint("svc", i))) }))
		c.Add(ws)
	}
	var stop int32
	var wg sync.WaitGroup
	for g := 0; g < 8; g++ {
		wg.Add(1)
		go func(g int) {
			defer wg.Done()
			for n := 0; n < 120 && atomic.LoadInt32(&stop) == 0; n++ {
				i, j := (g+n)%svcs, (g/2+n/3)%svcs
				req := corsReq("GET", fmt.Sprintf("/svc%d/x", i), front(j), "", "")
				out := rt.Run(c, rt.Dispatch, &req)
				ctx.Eval(1)
				ctx.Count("concurrent_requests_through_service_level_cors_filters", 1)
				ac := acHeaders(out.Rec.Hdr())
				doc := map[string]interface{}{"service": i, "origin": front(j), "allowed_origin_of_that_service": front(i), "access_control_headers": ac, "status": out.Status,
					"body": out.Rec.Body.String(), "route_filter_of": out.Rec.Hdr()["X-Route-Of"], "router": router}
				bad := ""
				switch {
				case out.Panicked:
					bad = "panic: " + out.Panic
				case i != j && len(ac) > 0:
					bad = fmt.Sprintf("service %d allows only %q, the request came from %q, the response carries %v", i, front(i), front(j), ac)
				case i == j && (len(ac["Access-Control-Allow-Origin"]) != 1 || ac["Access-Control-Allow-Origin"][0] != front(j)):
					bad = fmt.Sprintf("service %d allows %q: Allow-Origin is %q", i, front(i), ac["Access-Control-Allow-Origin"])
				case i == j && (len(ac["Access-Control-Allow-Credentials"]) == 1) != (i%2 == 0):
					bad = fmt.Sprintf("service %d has cookies allowed = %v: Allow-Credentials is %q", i, i%2 == 0, ac["Access-Control-Allow-Credentials"])
				case out.Status != 200 || out.Rec.Body.String() != fmt.Sprint("svc", i):
					bad = fmt.Sprintf("GET /svc%d/x answered %d %q", i, out.Status, out.Rec.Body.String())
				}
				if bad != "" {
					if atomic.CompareAndSwapInt32(&stop, 0, 1) {
						cls := "grant-to-disallowed"
						if i == j {
							cls = "grant-of-another-service"
						}
						ctx.Violation(ci, "c08:"+cls+":service-level-filters:concurrent", bad, doc)
					}
					return
				}
			}
		}(g)
	}
	wg.Wait()
	ctx.Sig("service-level-cors|" + router)
}

// sharedDomainList: two filters configured from one list - one with all of it, one with its first entry only (a sub-slice of
// the same array) - and later an entry of the list is replaced in place. Each filter allows what ITS configuration holds at
// the time of the request.
func sharedDomainList(ctx *core.Ctx, ci int, router string) {
	trusted := []string{"https://a.example.org", "https://B.example.org", "https://c.example.org"}
	mk := func(list []string) *restful.Container {
		c := restful.NewContainer()
		if router == "jsr311" {
			c.Router(restful.RouterJSR311{})
		}
		cors := restful.CrossOriginResourceSharing{AllowedDomains: list, CookiesAllowed: true, Container: c}
		c.Filter(cors.Filter)
		ws := new(restful.WebService).Path("/shared")
		ws.Route(ws.GET("/x").To(func(req *restful.Request, resp *restful.Response) { resp.Write([]byte("ok")) }))
		c.Add(ws)
		return c
	}
	long, short := mk(trusted), mk(trusted[:1])
	probe := func(c *restful.Container, which, origin string, want bool, phase string) bool {
		req := corsReq("GET", "/shared/x", origin, "", "")
		out := rt.Run(c, rt.Dispatch, &req)
		ctx.Eval(1)
		ctx.Count("requests_through_filters_sharing_one_domain_list", 1)
		ac := acHeaders(out.Rec.Hdr())
		got := len(ac["Access-Control-Allow-Origin"]) == 1 && ac["Access-Control-Allow-Origin"][0] == origin
		if got != want || (!want && len(ac) > 0) {
			ctx.Violation(ci, "c08:shared-domain-list:"+which+":"+phase, fmt.Sprintf("filter with the %s list, Origin %q, %s: allowed by its configuration = %v, the response carries %v", which, origin, phase, want, ac),
				map[string]interface{}{"list": trusted, "filter": which, "origin": origin, "access_control_headers": ac, "router": router})
			return false
		}
		return true
	}
	ok := probe(long, "whole", "https://b.example.org", true, "first use") &&
		probe(short, "one-entry", "https://b.example.org", false, "after the whole list was consulted") &&
		probe(short, "one-entry", "https://A.example.org", true, "after the whole list was consulted") &&
		probe(long, "whole", "https://c.example.org", true, "again") &&
		probe(short, "one-entry", "https://c.example.org", false, "again")
	if !ok {
		return
	}
	trusted[1] = "https://d.example.org" // b is no longer trusted, d is
	_ = probe(long, "whole", "https://b.example.org", false, "after the entry was replaced in the list") &&
		probe(long, "whole", "https://D.example.org", true, "after the entry was replaced in the list") &&
		probe(short, "one-entry", "https://d.example.org", false, "after the entry was replaced in the list") &&
		probe(short, "one-entry", "https://a.example.org", true, "after the entry was replaced in the list")
	ctx.Sig("shared-domain-list|" + router)
}

func c08(ctx *core.Ctx) {
	quietLogs()
	defer restful.EnableTracing(false)
	ctx.Rule("generated CORS configurations (0-4 allowed domains +/- the .* wildcard, optional predicate over a fixed set, cookies, exposed headers, max-age, allowed methods/headers) on generated route tables, both routers; origins per allowed entry: exact, case variants, proper prefix/suffix, superstrings (entry.evil.com, evil-entry, x+entry), port/scheme variants, regex look-alikes (. -> x), trailing dot/slash/space/tab, host only, list 'a,a', null, empty, unicode, the request's own Host with either scheme; requests: route hit, other method, 404, OPTIONS with and without Access-Control-Request-Method, a plain handler registered with HandleWithFilter before the first filter; a quarter of the configurations with trace logging on; two CORS filters (container and WebService level) with configurations of their own on one request; four WebServices with a CORS filter of their own each (behind three container filters), requests for all of them in flight at once from 8 goroutines; two filters configured from one list (the whole list / a one-entry sub-slice of it), an entry of which is later replaced in place. Oracle: reference policy; not allowed / no Origin => no Access-Control-* header and complete response + event log equal to a twin container without the filter; allowed => Allow-Origin at most once and byte-equal to Origin, credentials only if configured. Non-trivial = a request carrying an Origin; distinct by (policy verdict, origin mutation kind, request kind, list size, predicate).")
	ctx.Assume("predicate results are known from the configuration (fixed case-insensitive set) and cross-checked against a tap on the predicate")
	configs := ctx.N(400, 80000)
	for ci := 0; ci < configs; ci++ {
		if ctx.Skip(ci) {
			continue
		}
		r := ctx.Rand(ci, "cfg")
		router := routerOf(ci)
		corsDynamic = ci%3 == 0 // most applications never enable dynamic routes
		p := buildCorsPair(r, router)
		ctx.Case(ci, core.JSON(p.cfg)+" table="+core.JSON(p.t))
		if ci%10 == 5 || ci%10 == 8 {
			serviceLevelCors(ctx, ci, router)
		}
		if ci%20 == 3 || ci%20 == 14 {
			sharedDomainList(ctx, ci, router)
		}
		restful.EnableTracing(ci%8 == 3 || ci%8 == 6) // a quarter of the configurations with trace logging on
		if ci%5 == 1 || ci%5 == 2 {
			twoCorsFilters(ctx, ci, r, p.cfg)
		}
		origins := originVariants(r, p.cfg)
		// probe paths: a hit, a 404
		hit := rt.GenReq(r, p.t, "common")
		for try := 0; try < 10 && hit.Class != "hit"; try++ {
			hit = rt.GenReq(r, p.t, "common")
		}
		type c08Pair struct {
			origin string
			req    rt.Req
		}
		var pairs []c08Pair
		for oi, origin := range origins {
			kinds := []struct {
				kind string
				req  rt.Req
			}{
				{"hit", corsReq(hit.Method, hit.Path, origin, "", "")},
				{"preflight", corsReq("OPTIONS", hit.Path, origin, r.Pick([]string{"GET", "POST", "PUT", "get"}), r.Pick([]string{"", "Content-Type", "X-Custom, Accept"}))},
			}
			switch oi % 3 {
			case 0:
				kinds = append(kinds, struct {
					kind string
					req  rt.Req
				}{"options-plain", corsReq("OPTIONS", hit.Path, origin, "", "")})
			case 1:
				kinds = append(kinds, struct {
					kind string
					req  rt.Req
				}{"404", corsReq("GET", "/no/such/place", origin, "", "")})
			case 2:
				kinds = append(kinds, struct {
					kind string
					req  rt.Req
				}{"other-method", corsReq("DELETE", hit.Path, origin, "", "")})
			}
			if oi%4 == 1 {
				kinds = append(kinds, struct {
					kind string
					req  rt.Req
				}{"hwf-early", corsReq("GET", "/hwf-early/x", origin, "", "")})
			}
			for _, kr := range kinds {
				req := kr.req
				req.HasCT, req.CT, req.HasAcc, req.Accept, req.BodyLen = hit.HasCT, hit.CT, hit.HasAcc, hit.Accept, 0
				if req.Method == hit.Method {
					req.BodyLen = hit.BodyLen
				}
				entry := rt.Dispatch
				if kr.kind == "hwf-early" {
					entry = rt.ServeHTTP // plain handlers live on the ServeMux
					req.HasCT, req.HasAcc, req.BodyLen = false, false, 0
				} else {
					pairs = append(pairs, c08Pair{origin, req})
				}
				p.tap.reset()
				out := rt.Run(p.with, entry, &req)
				tw := rt.Run(p.twin, entry, &req)
				ctx.Eval(2)
				verdict := p.cfg.policy(origin)
				ac := acHeaders(out.Rec.Hdr())
				doc := map[string]interface{}{"config": p.cfg, "request": req, "origin": origin, "policy": verdict, "access_control_headers": ac, "status": out.Status, "twin_status": tw.Status, "router": router}
				if out.Panicked {
					ctx.Violation(ci, "c08:panic", "panic: "+out.Panic, doc)
					continue
				}
				// cross-check the reference against what the predicate really answered
				p.tap.mu.Lock()
				for arg, res := range p.tap.calls {
					if strings.EqualFold(arg, origin) && res && verdict == originNotAllowed {
						verdict = originAllowed // cannot happen with the fixed-set predicate; kept as a guard against a deaf reference
					}
				}
				p.tap.mu.Unlock()
				mut := "other"
				if oi >= 10 {
					mut = fmt.Sprintf("m%d", (oi-10)%23)
				} else {
					mut = fmt.Sprintf("fixed%d", oi)
				}
				if origin != "" {
					ctx.Sig(fmt.Sprintf("%s|%s|%s|n=%d|pred=%v", verdict, mut, kr.kind, len(p.cfg.Domains), p.cfg.HasPred))
				}
				if verdict == originNotAllowed {
					ctx.Count("not_allowed_checked", 1)
					if len(ac) > 0 {
						ctx.Violation(ci, "c08:grant-to-disallowed:"+kr.kind, fmt.Sprintf("Origin %q is not allowed by %v (predicate set %v) but the response carries %v", origin, p.cfg.Domains, p.cfg.Pred, ac), doc)
						continue
					}
					if fullSig(out) != fullSig(tw) {
						ctx.Violation(ci, "c08:not-as-if-absent:"+kr.kind, fmt.Sprintf("Origin %q is not allowed, yet the response differs from the filter-less twin: %s vs %s", origin, fullSig(out), fullSig(tw)), doc)
					}
					continue
				}
				ctx.Count("allowed_checked", 1)
				if v, ok := ac["Access-Control-Allow-Origin"]; ok {
					if len(v) != 1 || v[0] != origin {
						ctx.Violation(ci, "c08:echo:"+kr.kind, fmt.Sprintf("Access-Control-Allow-Origin is %q for Origin %q", v, origin), doc)
					}
				}
				if v, ok := ac["Access-Control-Allow-Credentials"]; ok {
					if !p.cfg.Cookies || len(v) != 1 {
						ctx.Violation(ci, "c08:credentials:"+kr.kind, fmt.Sprintf("Access-Control-Allow-Credentials %q although cookies allowed = %v", v, p.cfg.Cookies), doc)
					}
				}
				if ctx.WantSample() && len(ac) > 1 {
					ctx.Sample(doc)
				}
			}
		}
		if ci%3 == 0 {
			// the same pairs from 8 goroutines at once: a grant is decided for, and echoes, the request's OWN origin
			var wg sync.WaitGroup
			for g := 0; g < 8; g++ {
				wg.Add(1)
				go func(g int) {
					defer wg.Done()
					for i := g; i < len(pairs); i += 8 {
						pr := pairs[i]
						out := rt.Run(p.with, rt.Dispatch, &pr.req)
						ctx.Eval(1)
						ctx.Count("concurrent_requests", 1)
						ac := acHeaders(out.Rec.Hdr())
						doc := map[string]interface{}{"config": p.cfg, "request": pr.req, "origin": pr.origin, "access_control_headers": ac, "mode": "concurrent", "router": router}
						if p.cfg.policy(pr.origin) == originNotAllowed {
							if len(ac) > 0 {
								ctx.Violation(ci, "c08:grant-to-disallowed:concurrent", fmt.Sprintf("Origin %q is not allowed but (while other requests were in flight) the response carries %v", pr.origin, ac), doc)
							}
							continue
						}
						if v, ok := ac["Access-Control-Allow-Origin"]; ok && (len(v) != 1 || v[0] != pr.origin) {
							ctx.Violation(ci, "c08:echo:concurrent", fmt.Sprintf("Access-Control-Allow-Origin is %q for Origin %q (other requests in flight)", v, pr.origin), doc)
						}
					}
				}(g)
			}
			wg.Wait()
		}
	}
}

func foldIn(x string, xs []string) bool {
	for _, y := range xs {
		if strings.EqualFold(x, y) {
			return true
		}
	}
	return false
}

func exactIn(x string, xs []string) bool {
	for _, y := range xs {
		if x == y {
			return true
		}
	}
	return false
}

// routable asks a filter-less container which methods are routable at the URL.
func routable(c *restful.Container, path string) []string {
	var out []string
	for _, m := range append(append([]string{}, rt.Methods...), "OPTIONS") {
		req := rt.Req{Method: m, Path: path}
		o := rt.Run(c, rt.Dispatch, &req)
		if o.Status != 404 && o.Status != 405 {
			out = append(out, m)
		}
	}
	return out
}

// judgePreflight applies C09's grant rule to one preflight response.
func judgePreflight(cfg *corsCfg, allowedMethods []string, acrm, acrh string, out *rt.Outcome) (cls, msg string) {
	ac := acHeaders(out.Rec.Hdr())
	if len(out.Obs.Invokes) > 0 || len(out.Obs.Sels) > 0 {
		return "chain-continued", fmt.Sprintf("a later filter or route function ran for a preflight (filters %d, handlers %d)", len(out.Obs.Sels), len(out.Obs.Invokes))
	}
	headersOK := true
	if acrh != "" {
		for _, h := range strings.Split(acrh, ",") {
			h = strings.Trim(h, " ")
			if !foldIn(h, cfg.Headers) && !exactIn("*", cfg.Headers) {
				headersOK = false
			}
		}
	}
	must := exactIn(acrm, allowedMethods) && headersOK
	may := foldIn(acrm, allowedMethods) && headersOK
	_, hasM := ac["Access-Control-Allow-Methods"]
	_, hasH := ac["Access-Control-Allow-Headers"]
	_, hasO := ac["Access-Control-Allow-Origin"]
	granted := hasM && hasH && hasO
	if !granted && len(ac) > 0 {
		return "partial-grant", fmt.Sprintf("neither a full grant nor a clean refusal: %v", ac)
	}
	if granted && !may {
		return "grant-not-allowed", fmt.Sprintf("granted %v although requested method %q / headers %q are not within allowed methods %v / headers %v", ac, acrm, acrh, allowedMethods, cfg.Headers)
	}
	if !granted && must {
		return "refused-allowed", fmt.Sprintf("refused although method %q is listed in %v and headers %q are allowed by %v", acrm, allowedMethods, acrh, cfg.Headers)
	}
	if granted {
		for _, k := range []string{"Access-Control-Allow-Methods", "Access-Control-Allow-Headers", "Access-Control-Allow-Origin"} {
			if len(ac[k]) != 1 {
				return "grant-header-count", fmt.Sprintf("%s appears %d times", k, len(ac[k]))
			}
		}
		// every header the grant names must be an allowed one
		if !exactIn("*", cfg.Headers) {
			for _, line := range ac["Access-Control-Allow-Headers"] {
				for _, h := range strings.Split(line, ",") {
					if h = strings.Trim(h, " "); h != "" && !foldIn(h, cfg.Headers) {
						return "grant-names-header-not-allowed", fmt.Sprintf("Access-Control-Allow-Headers names %q, allowed headers are %v", h, cfg.Headers)
					}
				}
			}
		}
		// the advertised method list itself must be the allowed set
		if setOf(ac["Access-Control-Allow-Methods"]) != setOf(allowedMethods) {
			return "grant-lists-other-methods", fmt.Sprintf("Access-Control-Allow-Methods %v, allowed methods are %v", ac["Access-Control-Allow-Methods"], allowedMethods)
		}
	}
	return "", ""
}

// c09: preflight answered by the filter alone; grants only what is allowed.
// preflightDuringRouteChanges: allowed methods are computed from the routes (none configured) of a WebService with dynamic
// routes, and a DELETE route comes and goes while preflights ask for DELETE. Whether a preflight is granted depends on the
// moment; but a grant is ONE statement: the methods it lists include the method it was asked for.
func preflightDuringRouteChanges(ctx *core.Ctx, ci int, router string) {
	c := restful.NewContainer()
	if router == "jsr311" {
		c.Router(restful.RouterJSR311{})
	}
	cors := restful.CrossOriginResourceSharing{AllowedDomains: []string{"http://example.com"}, AllowedHeaders: []string{"X-A", "X-B", "X-C"}, Container: c}
	c.Filter(cors.Filter)
	ws := new(restful.WebService).Path("/shift")
	ws.SetDynamicRoutes(true)
	ws.Route(ws.GET("/doc").To(func(req *restful.Request, resp *restful.Response) {}))
	c.Add(ws)
	var stop, bad int32
	var first atomic.Value
	var wg sync.WaitGroup
	wg.Add(1)
	go func() {
		defer wg.Done()
		for i := 0; i < 400 && atomic.LoadInt32(&bad) == 0; i++ {
			ws.Route(ws.DELETE("/doc").To(func(req *restful.Request, resp *restful.Response) {}))
			runtime.Gosched()
			ws.RemoveRoute("/shift/doc", "DELETE")
			runtime.Gosched()
		}
		atomic.StoreInt32(&stop, 1)
	}()
	for g := 0; g < 6; g++ {
		wg.Add(1)
		go func() {
			defer wg.Done()
			for atomic.LoadInt32(&stop) == 0 {
				req := corsReq("OPTIONS", "/shift/doc", "http://example.com", "DELETE", "X-A, X-B, X-C, X-A, X-B, X-C, X-A, X-B, X-C")
				out := rt.Run(c, rt.Dispatch, &req)
				ctx.Eval(1)
				ctx.Count("preflights_during_route_changes", 1)
				h := out.Rec.Hdr()
				if len(h["Access-Control-Allow-Origin"]) == 0 {
					continue // refused at that moment
				}
				ctx.Count("preflights_granted_during_route_changes", 1)
				listed := false
				for _, v := range h["Access-Control-Allow-Methods"] {
					for _, m := range rt.ParseAllow(v) {
						if m == "DELETE" {
							listed = true
						}
					}
				}
				if !listed && atomic.CompareAndSwapInt32(&bad, 0, 1) {
					first.Store(fmt.Sprint(h["Access-Control-Allow-Methods"]))
				}
			}
		}()
	}
	wg.Wait()
	if atomic.LoadInt32(&bad) != 0 {
		ctx.Violation(ci, "c09:grant-lists-other-methods:during-route-changes", fmt.Sprintf("a preflight asking for DELETE was granted with Access-Control-Allow-Methods %v while the DELETE route was being added and removed: the method it was asked for is not among the methods it allows", first.Load()),
			map[string]interface{}{"router": router, "allow_methods": first.Load()})
	}
	ctx.Sig("preflight-during-route-changes|" + router)
}

func c09(ctx *core.Ctx) {
	quietLogs()
	ctx.Rule("generated CORS configurations x route tables (C17's fragment), both routers. Origins: an allowed front end, in two of seven configurations one on the request's own Host under the other scheme. Preflights: requested method from {GET,POST,PUT,DELETE,PATCH,HEAD, lower-case, unknown}, requested header lists (0-4 entries, any case, SP around commas, one foreign header at any position). Oracle: no later filter/handler event; grant => method within allowed methods (configured, or probed on a filter-less twin when unconfigured) and every header allowed; listed method + allowed headers => grant; refusal => zero Access-Control-* headers. A HandleWithFilter handler registered before the first filter: its preflight is answered by the filter alone, its actual request gets the grant once. Actual requests from allowed origins: chain continues like the twin and Allow-Origin/Credentials/Expose-Headers/Max-Age appear exactly once when configured. Now and then preflights for DELETE from 6 goroutines while the DELETE route of a dynamic WebService comes and goes: a grant lists the method it was asked for. History: 30 preflights alternating over URLs with different method sets on ONE filter value, sequentially and from 8 goroutines (race detector on). Non-trivial = a judged preflight or actual request; distinct by (grant/refusal reason, configured vs computed methods, header list shape, history mode).")
	configs := ctx.N(300, 30000)
	reqHeaders := []string{"Content-Type", "content-type", "ACCEPT", "X-Custom", "Authorization", "X-Evil", "x-custom", "Accept", "Language", "Content", "x-authorization-hint", "Hint", "accept-language"}
	for ci := 0; ci < configs; ci++ {
		if ctx.Skip(ci) {
			continue
		}
		r := ctx.Rand(ci, "cfg")
		router := routerOf(ci)
		corsDynamic = (ci/2)%2 == 0 // the configurations whose routes change between two passes need dynamic routes; the others are static
		p := buildCorsPair(r, router)
		// every preflight needs an allowed origin
		origin := "http://example.com"
		if ci%7 == 3 || ci%7 == 6 {
			// the front end lives on the API's own host name under the other scheme: a cross-origin caller like any other
			origin = "https://verif.test"
		}
		if p.cfg.policy(origin) != originAllowed {
			p.cfg.Domains = append(p.cfg.Domains, origin)
			p = rebuildCorsPair(p, router)
		}
		if ci == 0 && rt.DefaultContainerFree() {
			p = onDefaultContainer(p, router)
			ctx.Count("configurations_on_the_package_level_container", 1)
		}
		ctx.Case(ci, core.JSON(p.cfg)+" table="+core.JSON(p.t))
		if ci%30 == 4 || ci%30 == 19 {
			preflightDuringRouteChanges(ctx, ci, router)
		}
		rr := ctx.Rand(ci, "req")
		urls := urlsFor(rr, p.t, 12)
		passes := 1
		if len(p.cfg.Methods) == 0 && (ci/2)%2 == 0 {
			passes = 2 // allowed methods are computed from the routes: they must follow a change of the routes
		}
		for pass := 0; pass < passes; pass++ {
			if pass == 1 {
				si := rr.Intn(len(p.t.Svcs))
				svc := &p.t.Svcs[si]
				if len(svc.Routes) == 0 || p.wsWith[si] == nil {
					break
				}
				nr := svc.Routes[rr.Intn(len(svc.Routes))]
				nr.ID = 7000 + ci
				nr.Method = rr.Pick([]string{"GET", "POST", "PUT", "DELETE", "PATCH"})
				nr.Conds = nil
				svc.Routes = append(svc.Routes, nr)
				bo := rt.DefaultBuild(router)
				for _, ws := range []*restful.WebService{p.wsWith[si], p.wsTwin[si], p.wsPlain[si]} {
					rt.AddRoute(ws, &svc.Routes[len(svc.Routes)-1], bo)
				}
				ctx.Count("route_changes_between_preflight_passes", 1)
			}
			for _, u := range urls {
				allowed := p.cfg.Methods
				computed := false
				if len(allowed) == 0 {
					allowed = routable(p.plain, u)
					computed = true
				}
				for q := 0; q < 6; q++ {
					acrm := rr.Pick([]string{"GET", "POST", "PUT", "DELETE", "PATCH", "HEAD", "get", "Post", "FOO", "OPTIONS"})
					if len(allowed) > 0 && rr.Chance(1, 2) {
						acrm = rr.Pick(allowed)
					}
					var hs []string
					for i := 0; i < rr.Intn(5); i++ {
						hs = append(hs, rr.Pick(reqHeaders))
					}
					if len(p.cfg.Headers) > 0 && rr.Chance(1, 12) {
						// a long request list: 12 or 40 names, allowed ones, now and then one that is not allowed at the very end
						hs = nil
						for i := 0; i < []int{12, 40}[rr.Intn(2)]; i++ {
							hs = append(hs, rr.Pick(p.cfg.Headers))
						}
						if rr.Chance(1, 2) {
							hs = append(hs, "X-Evil")
						}
					}
					acrh := strings.Join(hs, rr.Pick([]string{",", ", ", " , "}))
					req := corsReq("OPTIONS", u, origin, acrm, acrh)
					if q == 5 && len(p.cfg.Headers) > 0 && !exactIn("*", p.cfg.Headers) && len(allowed) > 0 {
						// the requested headers arrive on two lines, the first one allowed; whatever the filter grants must be allowed
						acrm, acrh = allowed[0], p.cfg.Headers[0]
						hs = []string{acrh}
						req = corsReq("OPTIONS", u, origin, acrm, acrh)
						req.More = map[string][]string{"Access-Control-Request-Headers": {rr.Pick([]string{"X-Evil", "Authorization, X-Evil", "X-Other-Evil"})}}
						ctx.Count("preflights_with_two_header_lines", 1)
					}
					out := rt.Run(p.with, rt.Dispatch, &req)
					ctx.Eval(1)
					doc := map[string]interface{}{"config": p.cfg, "table": p.t, "request": req, "allowed_methods": allowed, "computed": computed, "router": router,
						"access_control_headers": acHeaders(out.Rec.Hdr()), "status": out.Status}
					if out.Panicked {
						ctx.Violation(ci, "c09:panic", "panic: "+out.Panic, doc)
						continue
					}
					cls, msg := judgePreflight(p.cfg, allowed, acrm, acrh, out)
					shape := fmt.Sprintf("h=%d", len(hs))
					granted := len(acHeaders(out.Rec.Hdr())) > 0
					ctx.Sig(fmt.Sprintf("preflight|granted=%v|computed=%v|%s|listed=%v|pass=%d", granted, computed, shape, exactIn(acrm, allowed), pass))
					ctx.Count("preflights_judged", 1)
					if granted {
						ctx.Count("preflights_granted", 1)
					}
					if cls != "" {
						ctx.Violation(ci, fmt.Sprintf("c09:%s:computed=%v", cls, computed), fmt.Sprintf("OPTIONS %q ACRM=%q ACRH=%q: %s", u, acrm, acrh, msg), doc)
					}
				}
				// a preflight whose response already carries an Allow-Origin from an outer layer: still answered by the filter alone
				{
					req := corsReq("OPTIONS", u, origin, "GET", "")
					req.Hdr["X-Preset-Acao"] = "http://outer.example"
					out := rt.Run(p.with, rt.Dispatch, &req)
					ctx.Eval(1)
					if len(out.Obs.Invokes) > 0 || len(out.Obs.Sels) > 0 {
						ctx.Violation(ci, "c09:chain-continued:preset-allow-origin", fmt.Sprintf("OPTIONS %q (preflight, Allow-Origin pre-set by an outer filter): a later filter or route function ran", u),
							map[string]interface{}{"config": p.cfg, "table": p.t, "request": req, "router": router})
					}
				}
				// actual requests from the allowed origin
				for mi, m := range []string{"GET", "POST", "OPTIONS", "GET", "POST", "PUT"} {
					req := corsReq(m, u, origin, "", "")
					if mi >= 3 {
						// only OPTIONS requests are preflights, whatever headers another method carries
						req = corsReq(m, u, origin, rr.Pick([]string{"GET", "POST", "PUT"}), rr.Pick([]string{"", "Content-Type"}))
					}
					out := rt.Run(p.with, rt.Dispatch, &req)
					tw := rt.Run(p.twin, rt.Dispatch, &req)
					ctx.Eval(2)
					doc := map[string]interface{}{"config": p.cfg, "table": p.t, "request": req, "router": router, "access_control_headers": acHeaders(out.Rec.Hdr())}
					if out.Sig() != tw.Sig() || len(out.Obs.Sels) != len(tw.Obs.Sels) || out.Rec.Body.String() != tw.Rec.Body.String() {
						ctx.Violation(ci, "c09:actual-not-continued", fmt.Sprintf("%s %q from an allowed origin: %s (later filters %d), twin %s (later filters %d)", m, u, out.Sig(), len(out.Obs.Sels), tw.Sig(), len(tw.Obs.Sels)), doc)
						continue
					}
					ac := acHeaders(out.Rec.Hdr())
					want := map[string]bool{"Access-Control-Allow-Origin": true, "Access-Control-Allow-Credentials": p.cfg.Cookies,
						"Access-Control-Expose-Headers": len(p.cfg.Expose) > 0, "Access-Control-Max-Age": p.cfg.MaxAge > 0}
					for k, w := range want {
						n := len(ac[k])
						if (w && n != 1) || (!w && n != 0) {
							ctx.Violation(ci, "c09:actual-headers:"+k, fmt.Sprintf("%s %q from an allowed origin: %s appears %d times (configured: %v)", m, u, k, n, w), doc)
						}
					}
					ctx.Sig(fmt.Sprintf("actual|%s|%d", m, out.Status))
					ctx.Count("actual_requests_judged", 1)
				}
			}
		}
		// the plain handler registered with HandleWithFilter before the first container filter existed (ServeMux entry)
		{
			pre := corsReq("OPTIONS", "/hwf-early/x", origin, "GET", "")
			out := rt.Run(p.with, rt.ServeHTTP, &pre)
			ctx.Eval(1)
			if len(out.Obs.Invokes) > 0 || len(out.Obs.Sels) > 0 {
				ctx.Violation(ci, "c09:chain-continued:handle-with-filter", "a preflight for the pattern of a HandleWithFilter handler ran the handler or a later filter",
					map[string]interface{}{"config": p.cfg, "request": pre, "router": router})
			}
			act := corsReq("GET", "/hwf-early/x", origin, "", "")
			out = rt.Run(p.with, rt.ServeHTTP, &act)
			ctx.Eval(1)
			ac := acHeaders(out.Rec.Hdr())
			if n := len(ac["Access-Control-Allow-Origin"]); n != 1 || len(out.Obs.Invokes) != 1 {
				ctx.Violation(ci, "c09:actual-headers:handle-with-filter", fmt.Sprintf("GET on the pattern of a HandleWithFilter handler from an allowed origin: Allow-Origin appears %d times, the handler ran %d times (status %d body %.40q)", n, len(out.Obs.Invokes), out.Status, out.Rec.Body.String()),
					map[string]interface{}{"config": p.cfg, "request": act, "router": router, "access_control_headers": ac})
			}
			ctx.Count("early_handle_with_filter_probes", 2)
		}
		// history: ONE filter value, preflights alternating over URLs with different routable sets
		if len(p.cfg.Methods) == 0 && len(urls) >= 2 {
			type hp struct {
				u       string
				allowed []string
			}
			var hps []hp
			seenSets := map[string]bool{}
			for _, u := range urls {
				a := routable(p.plain, u)
				if !seenSets[setOf(a)] {
					seenSets[setOf(a)] = true
					hps = append(hps, hp{u, a})
				}
			}
			if len(hps) >= 2 {
				runHist := func(mode string, i int) {
					h := hps[i%len(hps)]
					acrm := "GET"
					if len(h.allowed) > 0 {
						acrm = h.allowed[i%len(h.allowed)]
					}
					if i%5 == 4 {
						// a method routable at the OTHER url
						o := hps[(i+1)%len(hps)]
						if len(o.allowed) > 0 {
							acrm = o.allowed[0]
						}
					}
					req := corsReq("OPTIONS", h.u, origin, acrm, "")
					out := rt.Run(p.with, rt.Dispatch, &req)
					ctx.Eval(1)
					ctx.Count("history_preflights_"+mode, 1)
					if cls, msg := judgePreflight(p.cfg, h.allowed, acrm, "", out); cls != "" {
						ctx.Violation(ci, "c09:history:"+mode+":"+cls, fmt.Sprintf("preflight #%d on one filter value, OPTIONS %q ACRM=%q: %s", i, h.u, acrm, msg),
							map[string]interface{}{"config": p.cfg, "table": p.t, "urls": hps, "index": i, "router": router, "access_control_headers": acHeaders(out.Rec.Hdr())})
					}
				}
				for i := 0; i < 30; i++ {
					runHist("sequential", i)
				}
				var wg sync.WaitGroup
				for g := 0; g < 8; g++ {
					wg.Add(1)
					go func(g int) {
						defer wg.Done()
						for i := g; i < 64; i += 8 {
							runHist("concurrent", i)
						}
					}(g)
				}
				wg.Wait()
				ctx.Sig(fmt.Sprintf("history|sets=%d", len(hps)))
			}
		}
		if ctx.WantSample() {
			ctx.Sample(map[string]interface{}{"config": p.cfg, "urls": urls, "router": router})
		}
	}
}

func rebuildCorsPair(p *corsPair, router string) *corsPair {
	bo := rt.DefaultBuild(router)
	bo.Dynamic = corsDynamic
	p.with, p.wsWith = rt.BuildWS(p.t, bo)
	p.cors = p.cfg.build(p.with, p.tap)
	p.with.HandleWithFilter("/hwf-early/", http.HandlerFunc(hwfEarly))
	p.with.Filter(p.cors.Filter)
	p.with.Filter(rt.SelFilter("after-cors"))
	return p
}

// onDefaultContainer rebuilds the filtered side on the package-level container: CORS filter WITHOUT a Container
// (it then asks restful.DefaultContainer for the routable methods), registered with restful.Filter / restful.Add.
func onDefaultContainer(p *corsPair, router string) *corsPair {
	bo := rt.DefaultBuild(router)
	bo.Dynamic = corsDynamic
	bo.Default = true
	restful.DefaultContainer.Router(restful.CurlyRouter{})
	if router == "jsr311" {
		restful.DefaultContainer.Router(restful.RouterJSR311{})
	}
	p.cors = p.cfg.build(nil, p.tap)
	restful.DefaultContainer.HandleWithFilter("/hwf-early/", http.HandlerFunc(hwfEarly))
	restful.Filter(p.cors.Filter)
	restful.Filter(rt.SelFilter("after-cors"))
	p.with, p.wsWith = rt.BuildWS(p.t, bo)
	return p
}
