package props

import (
	"bytes"
	"context"
	"fmt"
	"io"
	"net/http"
	"os"
	"runtime"
	"strings"
	"sync"
	"sync/atomic"
	"time"

	restful "github.com/emicklei/go-restful/v3"

	"verifharness/core"
	"verifharness/mon"
	"verifharness/rt"
)

func init() { register("C10", c10) }

type c10Panic struct {
	log *wlog
	id  string
}

func (p *c10Panic) String() string { return "injected:" + p.id }

type c10Case struct {
	Pos       string `json:"position"` // <element>:<when>, element in C0 C1 S0 S1 R0 R1 H E cond
	Routed    bool   `json:"routed"`   // false: the request fails routing (404) and runs container filters around the error handler
	Recovery  bool   `json:"recovery"`
	Coding    string `json:"coding"`   // "", gzip, deflate
	Provider  string `json:"provider"` // syncpool | bounded1 | custom
	Entry     string `json:"entry"`
	Markers   bool   `json:"filters_write_output"`
	CustomRec bool   `json:"custom_recover_handler"`
	RouteEnc  bool   `json:"encoding_via_route_override"`
	Value     string `json:"panic_value"` // ptr | string | error | runtime | abort (http.ErrAbortHandler) | nilerr | nilstringer | badstringer
	Cancelled bool   `json:"request_context_already_cancelled"`
}

type c10Env struct {
	c          *restful.Container
	recN       int
	recVal     interface{}
	ledger     *mon.Ledger
	curLog     *wlog
	curPos     string
	lastErr    error
	kind       string
	lostClient bool // the next request comes from a client whose connection fails on every body write
}

// c10Stringer is a panic value whose String method cannot be called safely (nil receiver, or it panics itself).
type c10Stringer struct {
	bad  bool
	text string
}

func (s *c10Stringer) String() string {
	if s.bad {
		panic("String() of the panic value panics")
	}
	return s.text // nil receiver: dereference
}

// hostileValue tells whether the panic value kind carries no "injected:<pos>" text the default recover handler could print.
func hostileValue(kind string) bool {
	switch kind {
	case "runtime", "abort", "nilerr", "nilstringer", "badstringer":
		return true
	}
	return false
}

// throw panics with a value of the configured kind.
func (e *c10Env) throw(pos string) {
	switch e.kind {
	case "string":
		panic("injected:" + pos)
	case "error":
		e.lastErr = fmt.Errorf("injected:%s", pos)
		panic(e.lastErr)
	case "runtime":
		var m map[string]int
		m[pos] = 1 // assignment to entry in nil map
	case "abort":
		panic(http.ErrAbortHandler)
	case "nilerr":
		// the typed-nil gotcha: an error interface holding a nil pointer whose Error method dereferences its receiver
		var pe *os.PathError
		var err error = pe
		panic(err)
	case "nilstringer":
		var st *c10Stringer
		panic(st)
	case "badstringer":
		panic(&c10Stringer{bad: true})
	case "serviceerror":
		// a value of the framework's own error type (a re-panicked routing or entity error): still a panic
		panic(restful.NewError(409, "injected:"+pos))
	}
	panic(&c10Panic{e.curLog, pos})
}

// sameValue decides whether v is the value injected at pos.
func (e *c10Env) sameValue(v interface{}, pos string) bool {
	switch e.kind {
	case "string":
		s, ok := v.(string)
		return ok && s == "injected:"+pos
	case "error":
		err, ok := v.(error)
		return ok && err == e.lastErr
	case "runtime":
		_, ok := v.(runtime.Error)
		return ok
	case "abort":
		return v == http.ErrAbortHandler
	case "nilerr":
		pe, ok := v.(*os.PathError)
		return ok && pe == nil
	case "nilstringer":
		st, ok := v.(*c10Stringer)
		return ok && st == nil
	case "badstringer":
		st, ok := v.(*c10Stringer)
		return ok && st != nil && st.bad
	case "serviceerror":
		se, ok := v.(restful.ServiceError)
		return ok && se.Code == 409 && se.Message == "injected:"+pos
	}
	pv, ok := v.(*c10Panic)
	return ok && pv.id == pos
}

func c10Filter(env *c10Env, name string, markers bool) restful.FilterFunction {
	return func(req *restful.Request, resp *restful.Response, chain *restful.FilterChain) {
		l := wlogOf(req.Request)
		want := req.Request.Header.Get("X-Panic")
		if markers {
			l.write(resp, []byte("["+name))
		}
		if want == name+":before" {
			env.throw(want)
		}
		chain.ProcessFilter(req, resp)
		if want == name+":after" {
			env.throw(want)
		}
		if markers {
			l.write(resp, []byte(name+"]"))
		}
	}
}

func buildC10(k *c10Case, inner restful.CompressorProvider) *c10Env {
	env := &c10Env{kind: k.Value}
	env.ledger = mon.NewLedger(inner)
	restful.SetCompressorProvider(env.ledger)
	c := restful.NewContainer()
	env.c = c
	if k.Recovery || k.Markers {
		c.DoNotRecover(!k.Recovery)
	} // else: recovery is off BY DEFAULT - the container is left as NewContainer made it
	c.EnableContentEncoding(k.Coding != "" && !k.RouteEnc)
	if k.CustomRec {
		c.RecoverHandler(func(v interface{}, w http.ResponseWriter) {
			env.recN++
			env.recVal = v
			// the recover handler decides status and headers of its answer
			w.Header().Set("Retry-After", "7")
			w.WriteHeader(503)
			env.curLog.write(w, []byte("RECOVERED:injected:"+env.curPos))
		})
	}
	c.ServiceErrorHandler(func(err restful.ServiceError, req *restful.Request, resp *restful.Response) {
		l := wlogOf(req.Request)
		want := req.Request.Header.Get("X-Panic")
		if want == "E:before" {
			env.throw(want)
		}
		resp.WriteHeader(err.Code)
		l.write(resp, []byte("ERR:"+err.Message))
		if want == "E:after" {
			env.throw(want)
		}
	})
	c.Filter(c10Filter(env, "C0", k.Markers))
	c.Filter(c10Filter(env, "C1", k.Markers))
	ws := new(restful.WebService).Path("/p")
	ws.Filter(c10Filter(env, "S0", k.Markers))
	ws.Filter(c10Filter(env, "S1", k.Markers))
	rb := ws.GET("/x").To(func(req *restful.Request, resp *restful.Response) {
		l := wlogOf(req.Request)
		want := req.Request.Header.Get("X-Panic")
		if want == "H:before" {
			env.throw(want)
		}
		if want == "H:readentity" {
			// the request body (declared gzip) panics while the entity is read: the panic comes out of ReadEntity
			var v map[string]interface{}
			req.ReadEntity(&v)
		}
		l.write(resp, []byte("payload-part-1;"))
		if want == "H:between" {
			env.throw(want)
		}
		l.write(resp, bytes.Repeat([]byte("payload-part-2;"), 40))
		if want == "H:after" {
			env.throw(want)
		}
	})
	rb.Filter(c10Filter(env, "R0", k.Markers))
	rb.Filter(c10Filter(env, "R1", k.Markers))
	rb.If(func(r *http.Request) bool {
		if r.Header.Get("X-Panic") == "cond:eval" {
			env.throw("cond:eval")
		}
		return true
	})
	if k.RouteEnc && k.Coding != "" {
		rb.ContentEncodingEnabled(true)
	}
	ws.Route(rb)
	ws.Route(ws.GET("/plain").To(func(req *restful.Request, resp *restful.Response) {
		wlogOf(req.Request).write(resp, []byte("plain-answer"))
	}))
	c.Add(ws)
	return env
}

// c10PanicBody is a request body whose Read panics (with a value of the configured kind).
type c10PanicBody struct{ e *c10Env }

func (b *c10PanicBody) Read(p []byte) (int, error) {
	b.e.throw("H:readentity")
	return 0, io.EOF
}
func (b *c10PanicBody) Close() error { return nil }

type c10Resp struct {
	retry   string // Retry-After as it stood when the status line went out
	lenErr  error
	status  int
	ce      string
	body    []byte
	logged  []byte
	escaped interface{}
}

func (e *c10Env) send(k *c10Case, path, panicAt string) *c10Resp {
	req := rt.Req{Method: "GET", Path: path, Hdr: map[string]string{}}
	if panicAt != "" {
		req.Hdr["X-Panic"] = panicAt
	}
	if k.Coding != "" {
		req.Hdr["Accept-Encoding"] = k.Coding
	}
	l := &wlog{}
	e.curLog, e.curPos = l, panicAt
	if panicAt == "H:readentity" {
		req.Hdr["Content-Encoding"] = "gzip"
		req.HasCT, req.CT = true, "application/json"
	}
	hr := rt.HTTPRequest(&req, nil)
	if panicAt == "H:readentity" {
		hr.Body = &c10PanicBody{e}
		hr.ContentLength = -1
	}
	cctx := context.WithValue(context.Background(), wlogKey{}, l)
	if k.Cancelled && panicAt != "" {
		// the client has gone away: the request's context is cancelled before the panic happens
		var cancel context.CancelFunc
		cctx, cancel = context.WithCancel(cctx)
		cancel()
	}
	hr = hr.WithContext(cctx)
	rec := rt.NewRec()
	rec.FailBody = e.lostClient
	out := &c10Resp{}
	func() {
		defer func() { out.escaped = recover() }()
		if k.Entry == rt.ServeHTTP {
			e.c.ServeHTTP(rec, hr)
		} else {
			e.c.Dispatch(rec, hr)
		}
	}()
	out.status, out.ce, out.logged = rec.Code(), rec.Hdr().Get("Content-Encoding"), l.b.Bytes()
	if rec.Sent != nil {
		out.retry = rec.Sent.Get("Retry-After")
	}
	out.body, out.lenErr = rec.ClientBody()
	return out
}

func (r *c10Resp) plain() ([]byte, error) {
	if r.lenErr != nil {
		return r.body, r.lenErr
	}
	if r.ce == "" {
		return r.body, nil
	}
	return decodeComplete(r.ce, r.body)
}

func c10Positions() (routed, unrouted []string) {
	for _, n := range []string{"C0", "C1", "S0", "S1", "R0", "R1"} {
		routed = append(routed, n+":before", n+":after")
	}
	routed = append(routed, "H:before", "H:readentity", "H:between", "H:after", "cond:eval")
	unrouted = []string{"C0:before", "C0:after", "C1:before", "C1:after", "E:before", "E:after"}
	return
}

// c10Stop: a case did not reach quiescence; the package-wide provider must not be swapped any more.
var c10Stop bool

func c10(ctx *core.Ctx) {
	quietLogs()
	c10Stop = false
	ctx.Rule("crash points enumerated completely: panic in each of 2 container / 2 service / 2 route filters before and after passing control, in the handler before / between / after its writes and inside ReadEntity (a gzip-declared request body whose Read panics), in an If-condition, and (routing-failure request) in container filters and the custom error handler; x recovery {on, off (set explicitly, or left at the default)} x coding {none, gzip, deflate} (container switch or route override) x provider {sync.Pool, bounded(1), custom} x entry {Dispatch, ServeHTTP} x filters writing output or not x custom (answers 503 with a header of its own) / default recover handler x now and then (in sequences) the same panicking request first from a client whose connection fails on every body write x panic value kind {pointer, string, error, runtime error, http.ErrAbortHandler, typed-nil error, typed-nil Stringer, Stringer whose String panics, restful.ServiceError by value}; the obsolete package variable restful.DoNotRecover set in every 7th case (value kinds on the sync.Pool / no-marker slice). Monitors: recover() around the entry, recording RecoverHandler, compressor ledger, probe requests replayed after every panic, Add+Remove afterwards (needs the write lock). 3000 containers whose recovery switch and recover handler are set from two goroutines at once (then a panicking request). Then sequences of 20 mixed panicking/normal requests per container. Non-trivial = every crash case; distinct by the full cell.")
	ctx.Assume("HandleWithFilter is excluded: the property speaks of routed dispatch",
		"panic values are pointers so that 'the same value' is decided by identity")
	defer func() {
		restful.DoNotRecover = false
		if !c10Stop {
			restful.SetCompressorProvider(restful.NewSyncPoolCompessors())
		}
	}()
	routedPos, unroutedPos := c10Positions()
	var cases []c10Case
	for _, routed := range []bool{true, false} {
		pos := routedPos
		if !routed {
			pos = unroutedPos
		}
		for _, p := range pos {
			for _, rec := range []bool{true, false} {
				for _, cod := range []string{"", "gzip", "deflate"} {
					for _, prov := range []string{"syncpool", "bounded1", "custom"} {
						for _, entry := range []string{rt.Dispatch, rt.ServeHTTP} {
							for _, mk := range []bool{false, true} {
								for _, cr := range []bool{true, false} {
									for _, re := range []bool{false, true} {
										if re && (cod == "" || !routed) {
											continue
										}
										kinds := []string{"ptr"}
										if !mk && prov == "syncpool" {
											kinds = []string{"ptr", "string", "error", "runtime", "abort", "nilerr", "nilstringer", "badstringer", "serviceerror"}
										}
										for _, kind := range kinds {
											cases = append(cases, c10Case{Pos: p, Routed: routed, Recovery: rec, Coding: cod, Provider: prov, Entry: entry, Markers: mk, CustomRec: cr, RouteEnc: re, Value: kind})
										}
									}
								}
							}
						}
					}
				}
			}
		}
	}
	ctx.Put("crash_cases_enumerated", len(cases))
	ctx.Put("exhaustive", true)
	for ci := range cases {
		if ctx.Skip(ci) {
			continue
		}
		k := &cases[ci]
		k.Cancelled = ci%4 == 3
		// the obsolete package-level switch of the package-level container is set by somebody else in the process: an own
		// container follows its own DoNotRecover setting
		restful.DoNotRecover = ci%7 == 3
		if ci%50 == 0 || ctx.OnlyCase >= 0 {
			ctx.Case(ci, core.JSON(k))
		}
		c10One(ctx, ci, k, []string{k.Pos})
		if c10Stop {
			return
		}
	}
	if !ctx.Skip(len(cases)) {
		c10ConcurrentConfig(ctx, len(cases))
	}
	// sequences of mixed panicking and normal requests on one container
	seqs := ctx.N(150, 60000)
	for si := 0; si < seqs; si++ {
		ci := len(cases) + si
		if ctx.Skip(ci) {
			continue
		}
		r := ctx.Rand(ci, "seq")
		k := cases[r.Intn(len(cases))]
		k.Routed = true
		var seq []string
		for i := 0; i < 20; i++ {
			if r.Chance(1, 2) {
				seq = append(seq, "")
			} else {
				seq = append(seq, routedPos[r.Intn(len(routedPos))])
			}
		}
		ctx.Case(ci, core.JSON(k)+" seq="+core.JSON(seq))
		c10One(ctx, ci, &k, seq)
		if c10Stop {
			return
		}
	}
}

// c10ConcurrentConfig: start-up code that configures one container from two goroutines (one switches recovery on, the other
// installs the recover handler; the calls touch different settings). Once both have returned, a panic is recovered by that handler.
func c10ConcurrentConfig(ctx *core.Ctx, ci int) {
	for rep := 0; rep < 3000; rep++ {
		c := restful.NewContainer()
		var called int32
		ws := new(restful.WebService).Path("/cc")
		ws.Route(ws.GET("/x").To(func(req *restful.Request, resp *restful.Response) { panic("configured concurrently") }))
		c.Add(ws)
		var wg sync.WaitGroup
		var gate int32
		wg.Add(2)
		go func() {
			defer wg.Done()
			for atomic.LoadInt32(&gate) == 0 {
				runtime.Gosched()
			}
			c.DoNotRecover(false)
		}()
		go func() {
			defer wg.Done()
			for atomic.LoadInt32(&gate) == 0 {
				runtime.Gosched()
			}
			c.RecoverHandler(func(v interface{}, w http.ResponseWriter) {
				atomic.AddInt32(&called, 1)
				w.WriteHeader(503)
			})
		}()
		atomic.StoreInt32(&gate, 1)
		wg.Wait()
		req := rt.Req{Method: "GET", Path: "/cc/x"}
		out := rt.Run(c, rt.Dispatch, &req)
		ctx.Eval(1)
		ctx.Count("containers_configured_from_two_goroutines", 1)
		if out.Panicked || atomic.LoadInt32(&called) != 1 || out.Status != 503 {
			ctx.Violation(ci, "c10:settings-lost:concurrent-configuration", fmt.Sprintf("DoNotRecover(false) and RecoverHandler(h) both returned before the request: panic escaped=%v (%s), h was called %d time(s), status %d", out.Panicked, out.Panic, called, out.Status),
				map[string]interface{}{"repetition": rep})
			return
		}
	}
	ctx.Sig("concurrent-configuration")
}

// c10One runs a sequence of (possibly panicking) requests on one fresh container and judges each.
func c10One(ctx *core.Ctx, ci int, k *c10Case, seq []string) {
	var inner restful.CompressorProvider
	switch k.Provider {
	case "bounded1":
		inner = restful.NewBoundedCachedCompressors(1, 1)
	case "custom":
		inner = plainProvider{}
	default:
		inner = restful.NewSyncPoolCompessors()
	}
	env := buildC10(k, inner)
	cell := fmt.Sprintf("pos=%s:recovery=%v:coding=%s:entry=%s", k.Pos, k.Recovery, k.Coding, k.Entry)
	doc := func(extra map[string]interface{}) map[string]interface{} {
		m := map[string]interface{}{"case": k, "sequence": seq}
		for a, b := range extra {
			m[a] = b
		}
		return m
	}
	// baseline answers of the probe set
	probes := []string{"/p/x", "/p/plain", "/p/none", "/q"}
	base := make([]string, len(probes))
	probeSig := func(p string) string {
		r := env.send(k, p, "")
		pl, err := r.plain()
		return fmt.Sprintf("status=%d ce=%s err=%v body=%q escaped=%v", r.status, r.ce, err, pl, r.escaped)
	}
	for i, p := range probes {
		base[i] = probeSig(p)
	}
	path := "/p/x"
	if !k.Routed {
		path = "/p/none"
	}
	for step, pos := range seq {
		if pos != "" && len(seq) > 1 && step%3 == 1 {
			// the same panicking request from a client that has gone away (every body write fails): what becomes of that
			// response is not judged - the next one must be complete and must be its own
			env.lostClient = true
			env.send(k, path, pos)
			env.lostClient = false
			ctx.Count("panicking_requests_from_a_lost_client", 1)
		}
		env.recN, env.recVal = 0, nil
		a0, r0 := env.ledger.Counts()
		r := env.send(k, path, pos)
		ctx.Eval(1)
		d := doc(map[string]interface{}{"step": step, "panic_at": pos, "status": r.status, "content_encoding": r.ce, "escaped": fmt.Sprint(r.escaped), "body_len": len(r.body)})
		pcell := cell
		if len(seq) > 1 {
			pcell = fmt.Sprintf("seq:pos=%s:recovery=%v:coding=%s:entry=%s", pos, k.Recovery, k.Coding, k.Entry)
		}
		a1, r1 := env.ledger.Counts()
		if pos == "" {
			if r.escaped != nil {
				ctx.Violation(ci, "c10:normal-request-panics:"+pcell, fmt.Sprintf("a normal request panicked after earlier panics: %v", r.escaped), d)
			}
		} else {
			ctx.Sig(fmt.Sprintf("%s|routed=%v|prov=%s|markers=%v|customrec=%v|routeenc=%v|seq=%v|val=%s", pcell, k.Routed, k.Provider, k.Markers, k.CustomRec, k.RouteEnc, len(seq) > 1, k.Value))
			ctx.Count("panics_injected", 1)
			if k.Recovery {
				if r.escaped != nil {
					ctx.Violation(ci, "c10:escaped:"+pcell, fmt.Sprintf("panic escaped %s although recovery is on: %v", k.Entry, r.escaped), d)
				} else {
					if k.CustomRec {
						if env.recN != 1 {
							ctx.Violation(ci, "c10:recover-calls:"+pcell, fmt.Sprintf("recover handler was called %d times", env.recN), d)
						} else if !env.sameValue(env.recVal, pos) {
							ctx.Violation(ci, "c10:recover-value:"+pcell, fmt.Sprintf("recover handler received %v, injected was a %s value at %s", env.recVal, k.Value, pos), d)
						}
					}
					pl, err := r.plain()
					if err != nil {
						ctx.Violation(ci, "c10:stream:"+pcell, fmt.Sprintf("response of a recovered panic is not a complete %s stream: %v", r.ce, err), d)
					} else if k.CustomRec {
						if !bytes.Equal(pl, r.logged) {
							ctx.Violation(ci, "c10:body:"+pcell, fmt.Sprintf("client sees %.60q, written were %.60q", pl, r.logged), d)
						}
						if !bytes.HasSuffix(pl, []byte("RECOVERED:injected:"+pos)) {
							ctx.Violation(ci, "c10:recover-output-lost:"+pcell, fmt.Sprintf("output of the recover handler is missing from the response: %.80q", pl), d)
						}
					} else if !bytes.Contains(pl, []byte("recover from panic situation: - ")) || (!hostileValue(k.Value) && !bytes.Contains(pl, []byte("injected:"+pos))) {
						ctx.Violation(ci, "c10:default-recover-output:"+pcell, fmt.Sprintf("default recover text missing: %.80q", pl), d)
					} else if n := bytes.Count(pl, []byte("recover from panic situation: - ")); n != 1 {
						ctx.Violation(ci, "c10:default-recover-output-of-another-request:"+pcell, fmt.Sprintf("the panic is passed ONCE to the recover handler, the response holds its report %d times (the report of an earlier request?): %.200q", n, pl), d)
					}
					// nothing written before the panic => the recover handler's status
					wroteBefore := len(r.logged) > 0 && !bytes.HasPrefix(r.logged, []byte("RECOVERED:"))
					if !k.CustomRec {
						wroteBefore = len(r.logged) > 0
					}
					wantStatus := 500
					if k.CustomRec {
						wantStatus = 503 // the custom recover handler answers 503 with a Retry-After header
					}
					if !wroteBefore && r.status != wantStatus {
						ctx.Violation(ci, "c10:status:"+pcell, fmt.Sprintf("nothing was written before the panic, the recover handler answered %d, status is %d", wantStatus, r.status), d)
					}
					if !wroteBefore && k.CustomRec && r.retry != "7" {
						ctx.Violation(ci, "c10:recover-header-lost:"+pcell, fmt.Sprintf("nothing was written before the panic; the header the recover handler set before its status is not part of the response head (Retry-After=%q)", r.retry), d)
					}
				}
			} else {
				if !env.sameValue(r.escaped, pos) {
					ctx.Violation(ci, "c10:not-propagated:"+pcell, fmt.Sprintf("recovery is off but the caller recovered %v instead of the injected %s value at %s", r.escaped, k.Value, pos), d)
				}
				if env.recN != 0 {
					ctx.Violation(ci, "c10:recover-handler-with-recovery-off:"+pcell, "recover handler ran although recovery is off", d)
				}
			}
		}
		// ledger: everything acquired for this request was released exactly once
		if (a1 - a0) != (r1 - r0) {
			ctx.Violation(ci, "c10:ledger-unbalanced:"+pcell, fmt.Sprintf("request acquired %d compressor(s) and released %d", a1-a0, r1-r0), d)
		}
		if n := env.ledger.Outstanding(); n != 0 {
			ctx.Violation(ci, "c10:compressor-lost:"+pcell, fmt.Sprintf("%d compressor(s) still held after the request ended", n), d)
		}
		if al := env.ledger.Alarms(); len(al) > 0 {
			ctx.Violation(ci, "c10:ledger-alarm:"+pcell, al[0], d)
		}
		if a1 > a0 {
			ctx.Count("panics_with_compressor_in_use", 1)
		}
		// the container serves every following request as before
		for i, p := range probes {
			if got := probeSig(p); got != base[i] {
				ctx.Violation(ci, "c10:probe-changed:"+pcell, fmt.Sprintf("after the panic GET %s answers %s, before it answered %s", p, got, base[i]), d)
				break
			}
		}
		ctx.Count("probe_replays", len(probes))
		// the write lock must be obtainable: Add + Remove of a scratch service
		done := make(chan struct{})
		go func() {
			defer close(done)
			tmp := new(restful.WebService).Path("/scratch")
			tmp.Route(tmp.GET("/").To(func(*restful.Request, *restful.Response) {}))
			env.c.Add(tmp)
			env.c.Remove(tmp)
		}()
		if blocked, timedOut := mon.WaitQuiescent(done, 30*time.Second); timedOut {
			if len(blocked) > 0 {
				ctx.Violation(ci, "c10:lock-left-held:"+pcell, fmt.Sprintf("Add/Remove after the panic is parked forever: %v", blocked), d)
			} else {
				ctx.Inconclusive("Add/Remove after a panic did not finish within the watchdog and no blocked go-restful frame was found: " + cell)
			}
			c10Stop = true
			return
		}
	}
	if ctx.WantSample() && strings.HasPrefix(k.Pos, "H") && k.Coding != "" {
		ctx.Sample(map[string]interface{}{"case": k, "sequence": seq})
	}
}
