// Package mon holds monitors shared by several properties.
package mon

import (
	"compress/gzip"
	"compress/zlib"
	"fmt"
	"sync"
	"sync/atomic"
	"time"

	restful "github.com/emicklei/go-restful/v3"
)

// LedgerEvent is one acquire/release as seen at the provider boundary (client side of the inner provider).
type LedgerEvent struct {
	Obj    int    // object id
	Kind   string // gzw | gzr | zlw
	Op     string // acquire | release
	Call   int64  // monotonic ns before the inner call (release) / before (acquire)
	Return int64  // monotonic ns after the inner call
	G      int64  // sequence number
}

// Ledger wraps a CompressorProvider. It adds an object to the held set AFTER the inner
// acquire returned and removes it BEFORE the inner release is called, so the held set is
// always a subset of what is truly held: it cannot raise a false alarm on provider-internal ordering.
type Ledger struct {
	Inner    restful.CompressorProvider
	Trip     bool // Reset released writers onto a trip-wire sink
	KeepHist bool

	mu       sync.Mutex
	held     map[interface{}]int
	ids      map[interface{}]int
	nextID   int
	alarms   []string
	hist     []LedgerEvent
	seq      int64
	Acquired int64
	Released int64
	maxHeld  int
	epoch    time.Time
	trips    int64
}

func NewLedger(inner restful.CompressorProvider) *Ledger {
	return &Ledger{Inner: inner, held: map[interface{}]int{}, ids: map[interface{}]int{}, epoch: time.Now()}
}

func (l *Ledger) now() int64 { return int64(time.Since(l.epoch)) }

func (l *Ledger) alarm(format string, a ...interface{}) {
	if len(l.alarms) < 50 {
		l.alarms = append(l.alarms, fmt.Sprintf(format, a...))
	}
}

func (l *Ledger) idOf(obj interface{}) int {
	id, ok := l.ids[obj]
	if !ok {
		l.nextID++
		id = l.nextID
		l.ids[obj] = id
	}
	return id
}

func (l *Ledger) acquired(obj interface{}, kind string, call int64) {
	ret := l.now()
	l.mu.Lock()
	id := l.idOf(obj)
	if _, dup := l.held[obj]; dup {
		l.alarm("provider handed out %s#%d while it is still in use", kind, id)
	}
	l.held[obj] = id
	if len(l.held) > l.maxHeld {
		l.maxHeld = len(l.held)
	}
	l.Acquired++
	if l.KeepHist {
		l.seq++
		l.hist = append(l.hist, LedgerEvent{id, kind, "acquire", call, ret, l.seq})
	}
	l.mu.Unlock()
}

// releasing returns false when the object is not held (double release / unknown object).
func (l *Ledger) releasing(obj interface{}, kind string) (int, int64) {
	call := l.now()
	l.mu.Lock()
	id := l.idOf(obj)
	if _, ok := l.held[obj]; !ok {
		l.alarm("release of %s#%d which is not held (released twice, or never acquired)", kind, id)
	}
	delete(l.held, obj)
	l.Released++
	l.mu.Unlock()
	return id, call
}

func (l *Ledger) released(id int, kind string, call int64) {
	if !l.KeepHist {
		return
	}
	ret := l.now()
	l.mu.Lock()
	l.seq++
	l.hist = append(l.hist, LedgerEvent{id, kind, "release", call, ret, l.seq})
	l.mu.Unlock()
}

// tripSink records any write through a stale reference to a released writer.
type tripSink struct {
	l    *Ledger
	id   int
	kind string
}

func (t *tripSink) Write(p []byte) (int, error) {
	atomic.AddInt64(&t.l.trips, 1)
	t.l.mu.Lock()
	t.l.alarm("%d bytes written through %s#%d after it was released (or before Reset after acquire)", len(p), t.kind, t.id)
	t.l.mu.Unlock()
	return len(p), nil
}

func (l *Ledger) AcquireGzipWriter() *gzip.Writer {
	call := l.now()
	w := l.Inner.AcquireGzipWriter()
	l.acquired(w, "gzw", call)
	return w
}

func (l *Ledger) ReleaseGzipWriter(w *gzip.Writer) {
	id, call := l.releasing(w, "gzw")
	if l.Trip {
		w.Reset(&tripSink{l, id, "gzw"})
	}
	l.Inner.ReleaseGzipWriter(w)
	l.released(id, "gzw", call)
}

func (l *Ledger) AcquireGzipReader() *gzip.Reader {
	call := l.now()
	r := l.Inner.AcquireGzipReader()
	l.acquired(r, "gzr", call)
	return r
}

func (l *Ledger) ReleaseGzipReader(r *gzip.Reader) {
	id, call := l.releasing(r, "gzr")
	l.Inner.ReleaseGzipReader(r)
	l.released(id, "gzr", call)
}

func (l *Ledger) AcquireZlibWriter() *zlib.Writer {
	call := l.now()
	w := l.Inner.AcquireZlibWriter()
	l.acquired(w, "zlw", call)
	return w
}

func (l *Ledger) ReleaseZlibWriter(w *zlib.Writer) {
	id, call := l.releasing(w, "zlw")
	if l.Trip {
		w.Reset(&tripSink{l, id, "zlw"})
	}
	l.Inner.ReleaseZlibWriter(w)
	l.released(id, "zlw", call)
}

// Alarms returns (and keeps) the alarms raised so far.
func (l *Ledger) Alarms() []string {
	l.mu.Lock()
	defer l.mu.Unlock()
	return append([]string{}, l.alarms...)
}

// Outstanding is the number of objects currently held.
func (l *Ledger) Outstanding() int {
	l.mu.Lock()
	defer l.mu.Unlock()
	return len(l.held)
}

func (l *Ledger) MaxHeld() int {
	l.mu.Lock()
	defer l.mu.Unlock()
	return l.maxHeld
}

func (l *Ledger) Counts() (acq, rel int64) {
	l.mu.Lock()
	defer l.mu.Unlock()
	return l.Acquired, l.Released
}

func (l *Ledger) History() []LedgerEvent {
	l.mu.Lock()
	defer l.mu.Unlock()
	return append([]LedgerEvent{}, l.hist...)
}

func (l *Ledger) ResetHistory() {
	l.mu.Lock()
	l.hist = nil
	l.mu.Unlock()
}
