package mon

import (
	"regexp"
	"runtime"
	"strings"
	"time"
)

const libPkg = "github.com/emicklei/go-restful/v3"

// Blocked describes a goroutine parked in a channel / lock operation below a go-restful frame.
type Blocked struct {
	State string `json:"state"`
	Frame string `json:"frame"`
}

var gHead = regexp.MustCompile(`^goroutine \d+ (?:gp=\S+ m=\S+ (?:mp=\S+ )?)?\[([^\],]+)`)

// BlockedInLibrary inspects all goroutine stacks (state-based, not time-based): a goroutine whose
// state is a channel or lock wait and whose first non-runtime/sync frame belongs to go-restful.
func BlockedInLibrary() []Blocked {
	buf := make([]byte, 1<<20)
	for {
		n := runtime.Stack(buf, true)
		if n < len(buf) {
			buf = buf[:n]
			break
		}
		buf = make([]byte, 2*len(buf))
	}
	var out []Blocked
	for _, g := range strings.Split(string(buf), "\n\n") {
		lines := strings.Split(strings.TrimSpace(g), "\n")
		if len(lines) < 2 {
			continue
		}
		m := gHead.FindStringSubmatch(lines[0])
		if m == nil {
			continue
		}
		state := m[1]
		if !(strings.HasPrefix(state, "chan send") || strings.HasPrefix(state, "chan receive") || strings.HasPrefix(state, "select") ||
			strings.HasPrefix(state, "semacquire") || strings.HasPrefix(state, "sync.")) {
			continue
		}
		for i := 1; i < len(lines); i += 2 {
			fn := lines[i]
			if j := strings.LastIndex(fn, "("); j > 0 {
				fn = fn[:j]
			}
			if strings.HasPrefix(fn, "runtime.") || strings.HasPrefix(fn, "sync.") || strings.HasPrefix(fn, "internal/") || strings.HasPrefix(fn, "sync/") {
				continue
			}
			if strings.HasPrefix(fn, libPkg) {
				out = append(out, Blocked{State: state, Frame: strings.TrimPrefix(fn, libPkg+".")})
			}
			break
		}
	}
	return out
}

// WaitQuiescent waits for done; if it does not arrive within the (generous) watchdog it returns the
// goroutines blocked inside go-restful. blocked != nil means "parked with nobody left to wake it" when
// the caller guarantees that every other worker has finished. timedOut with blocked == nil is inconclusive.
func WaitQuiescent(done <-chan struct{}, watchdog time.Duration) (blocked []Blocked, timedOut bool) {
	select {
	case <-done:
		return nil, false
	case <-time.After(watchdog):
	}
	// the watchdog only decides WHEN to look; the verdict comes from goroutine state, looked at twice
	b1 := BlockedInLibrary()
	select {
	case <-done:
		return nil, false
	case <-time.After(watchdog / 2):
	}
	b2 := BlockedInLibrary()
	if len(b1) > 0 && len(b2) > 0 {
		return b2, true
	}
	select {
	case <-done:
		return nil, false
	default:
	}
	return nil, true
}
