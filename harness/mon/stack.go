package mon

import (
	"regexp"
	"runtime"
	"strings"
	"time"
)

const libPkg = "github.com/emicklei/go-restful/v3"

// Blocked describes a goroutine parked in a channel / lock operation below a go-restful frame.
type Blocked struct {
	State string `json:"state"`
	Frame string `json:"frame"`
	ID    string `json:"goroutine"`
}

var gHead = regexp.MustCompile(`^goroutine (\d+) (?:gp=\S+ m=\S+ (?:mp=\S+ )?)?\[([^\],]+)`)

// BlockedInLibrary inspects all goroutine stacks (state-based, not time-based): a goroutine whose
// state is a channel or lock wait and whose first non-runtime/sync frame belongs to go-restful.
func BlockedInLibrary() []Blocked {
	buf := make([]byte, 1<<20)
	for {
		n := runtime.Stack(buf, true)
		if n < len(buf) {
			buf = buf[:n]
			break
		}
		buf = make([]byte, 2*len(buf))
	}
	var out []Blocked
	for _, g := range strings.Split(string(buf), "\n\n") {
		lines := strings.Split(strings.TrimSpace(g), "\n")
		if len(lines) < 2 {
			continue
		}
		m := gHead.FindStringSubmatch(lines[0])
		if m == nil {
			continue
		}
		state := m[2]
		if !(strings.HasPrefix(state, "chan send") || strings.HasPrefix(state, "chan receive") || strings.HasPrefix(state, "select") ||
			strings.HasPrefix(state, "semacquire") || strings.HasPrefix(state, "sync.")) {
			continue
		}
		for i := 1; i < len(lines); i += 2 {
			fn := lines[i]
			if j := strings.LastIndex(fn, "("); j > 0 {
				fn = fn[:j]
			}
			if strings.HasPrefix(fn, "runtime.") || strings.HasPrefix(fn, "sync.") || strings.HasPrefix(fn, "internal/") || strings.HasPrefix(fn, "sync/") {
				continue
			}
			if strings.HasPrefix(fn, libPkg) {
				out = append(out, Blocked{State: state, Frame: strings.TrimPrefix(fn, libPkg+"."), ID: m[1]})
			}
			break
		}
	}
	return out
}

// WaitQuiescent waits for done; if it does not arrive within the (generous) watchdog it returns the
// goroutines blocked inside go-restful. blocked != nil means "parked with nobody left to wake it" when
// the caller guarantees that every other worker has finished. timedOut with blocked == nil is inconclusive.
func WaitQuiescent(done <-chan struct{}, watchdog time.Duration) (blocked []Blocked, timedOut bool) {
	select {
	case <-done:
		return nil, false
	case <-time.After(watchdog):
	}
	// the watchdog only decides WHEN to look; the verdict comes from goroutine state: the SAME goroutine parked at
	// the SAME go-restful frame in three samples spread over the second half of the watchdog (a goroutine that merely
	// queues for a lock on a slow machine moves on between samples)
	persistent := BlockedInLibrary()
	for k := 0; k < 2 && len(persistent) > 0; k++ {
		select {
		case <-done:
			return nil, false
		case <-time.After(watchdog / 4):
		}
		now := map[string]string{}
		for _, b := range BlockedInLibrary() {
			now[b.ID] = b.Frame
		}
		var still []Blocked
		for _, b := range persistent {
			if now[b.ID] == b.Frame {
				still = append(still, b)
			}
		}
		persistent = still
	}
	select {
	case <-done:
		return nil, false
	default:
	}
	if len(persistent) > 0 {
		return persistent, true
	}
	return nil, true
}
