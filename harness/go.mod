module verifharness

go 1.23

require (
	github.com/anishathalye/porcupine v1.3.0
	github.com/emicklei/go-restful/v3 v3.0.0-00010101000000-000000000000
)

replace github.com/emicklei/go-restful/v3 => /repo
