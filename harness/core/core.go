// Package core holds what every property workload shares: the seeded PRNG, the
// result/evidence collector and the progress file that lets the driver name the
// case a crashed child was executing.
package core

import (
	"encoding/json"
	"fmt"
	"os"
	"sort"
	"sync"
	"time"
)

// Rand is a splitmix64 stream; the same (seed, property, case, stream) always yields the same values.
type Rand struct{ s uint64 }

func NewRand(seed uint64) *Rand { return &Rand{s: seed} }

func (r *Rand) U64() uint64 {
	r.s += 0x9e3779b97f4a7c15
	z := r.s
	z = (z ^ (z >> 30)) * 0xbf58476d1ce4e5b9
	z = (z ^ (z >> 27)) * 0x94d049bb133111eb
	return z ^ (z >> 31)
}

// Intn returns a value in [0,n).
func (r *Rand) Intn(n int) int {
	if n <= 0 {
		return 0
	}
	return int(r.U64() % uint64(n))
}

// Range returns a value in [lo,hi].
func (r *Rand) Range(lo, hi int) int { return lo + r.Intn(hi-lo+1) }

// Chance returns true with probability num/den.
func (r *Rand) Chance(num, den int) bool { return r.Intn(den) < num }

func (r *Rand) Pick(xs []string) string { return xs[r.Intn(len(xs))] }

func (r *Rand) Perm(n int) []int {
	p := make([]int, n)
	for i := range p {
		p[i] = i
	}
	for i := n - 1; i > 0; i-- {
		j := r.Intn(i + 1)
		p[i], p[j] = p[j], p[i]
	}
	return p
}

func hashString(s string) uint64 {
	h := uint64(1469598103934665603)
	for i := 0; i < len(s); i++ {
		h ^= uint64(s[i])
		h *= 1099511628211
	}
	return h
}

// Violation is one refuted case. Sig is a canonical signature built from structural
// features of the case (never from random values); it is what KNOWN_FINDINGS.txt matches.
type Violation struct {
	Sig    string      `json:"sig"`
	What   string      `json:"what"`
	Case   int         `json:"case"`
	Detail interface{} `json:"detail,omitempty"`
}

// Result is what the child hands to the driver.
type Result struct {
	Property       string                 `json:"property"`
	Tier           string                 `json:"tier"`
	Seed           uint64                 `json:"seed"`
	Evaluations    int                    `json:"evaluations"`
	Distinct       int                    `json:"distinct_nontrivial"`
	Rule           string                 `json:"rule"`
	Samples        []interface{}          `json:"samples"`
	Extra          map[string]interface{} `json:"extra"`
	Assumptions    []string               `json:"assumptions"`
	Violations     []Violation            `json:"violations"`
	ViolationCount int                    `json:"violation_count"`
	Inconclusive   []string               `json:"inconclusive"`
	MinDistinct    int                    `json:"min_distinct"`
	WallS          float64                `json:"wall_s"`
	Complete       bool                   `json:"complete"`
	Sigs           []string               `json:"sigs,omitempty"` // the distinct non-trivial signatures (merged across shards by the driver)
	Sets           map[string][]string    `json:"sets,omitempty"`
}

// Ctx is handed to a property workload.
type Ctx struct {
	Prop     string
	Tier     string
	Seed     uint64
	OnlyCase int // -1: all cases
	Scale    float64
	Shard    int // this child handles the cases with idx % Shards == Shard
	Shards   int

	mu       sync.Mutex
	res      Result
	sigs     map[string]struct{}
	counts   map[string]int64
	sets     map[string]map[string]struct{}
	progress *os.File
	start    time.Time
	out      string
	maxViol  int
}

func NewCtx(prop, tier string, seed uint64, out, progress string) (*Ctx, error) {
	c := &Ctx{Prop: prop, Tier: tier, Seed: seed, OnlyCase: -1, Scale: 1, out: out, start: time.Now(), maxViol: 12}
	c.sigs = map[string]struct{}{}
	c.counts = map[string]int64{}
	c.sets = map[string]map[string]struct{}{}
	c.res = Result{Property: prop, Tier: tier, Seed: seed, Extra: map[string]interface{}{}, Samples: []interface{}{}, Violations: []Violation{}, Inconclusive: []string{}, Assumptions: []string{}, MinDistinct: 2}
	if progress != "" {
		f, err := os.Create(progress)
		if err != nil {
			return nil, err
		}
		c.progress = f
	}
	return c, nil
}

func (c *Ctx) Quick() bool { return c.Tier != "thorough" }

// N picks the case count for the tier (scaled by -scale for calibration runs).
func (c *Ctx) N(quick, thorough int) int {
	n := quick
	if !c.Quick() {
		n = thorough
	}
	n = int(float64(n) * c.Scale)
	if n < 1 {
		n = 1
	}
	return n
}

// Rand returns the stream of (seed, property, case, stream name).
func (c *Ctx) Rand(caseIdx int, stream string) *Rand {
	s := c.Seed*0x9e3779b97f4a7c15 ^ hashString(c.Prop)*31 ^ uint64(caseIdx+1)*0xd6e8feb86659fd93 ^ hashString(stream)
	r := NewRand(s)
	r.U64()
	return r
}

// Skip tells a workload whether case idx is outside a replay selection.
func (c *Ctx) Skip(idx int) bool {
	if c.OnlyCase >= 0 {
		return idx != c.OnlyCase
	}
	return c.Shards > 1 && idx%c.Shards != c.Shard
}

// Case records, before the case runs, what is about to be executed.
func (c *Ctx) Case(idx int, desc string) {
	if c.progress == nil {
		return
	}
	c.mu.Lock()
	fmt.Fprintf(c.progress, "case=%d %s\n", idx, desc)
	c.mu.Unlock()
}

func (c *Ctx) Eval(n int) {
	c.mu.Lock()
	c.res.Evaluations += n
	c.mu.Unlock()
}

// Sig adds a non-trivial case signature to the distinct set.
func (c *Ctx) Sig(sig string) {
	c.mu.Lock()
	c.sigs[sig] = struct{}{}
	c.mu.Unlock()
}

// Sample keeps the first few actual cases for the evidence file.
func (c *Ctx) Sample(v interface{}) {
	c.mu.Lock()
	if len(c.res.Samples) < 4 {
		c.res.Samples = append(c.res.Samples, v)
	}
	c.mu.Unlock()
}

func (c *Ctx) WantSample() bool {
	c.mu.Lock()
	defer c.mu.Unlock()
	return len(c.res.Samples) < 4
}

func (c *Ctx) Count(key string, n int) {
	c.mu.Lock()
	c.counts[key] += int64(n)
	c.mu.Unlock()
}

func (c *Ctx) GetCount(key string) int64 {
	c.mu.Lock()
	defer c.mu.Unlock()
	return c.counts[key]
}

// Max keeps the maximum seen for key.
func (c *Ctx) Max(key string, n int) {
	c.mu.Lock()
	if int64(n) > c.counts[key] {
		c.counts[key] = int64(n)
	}
	c.mu.Unlock()
}

// SetAdd counts distinct members per key (reported as <key>_distinct).
func (c *Ctx) SetAdd(key, member string) {
	c.mu.Lock()
	m := c.sets[key]
	if m == nil {
		m = map[string]struct{}{}
		c.sets[key] = m
	}
	m[member] = struct{}{}
	c.mu.Unlock()
}

func (c *Ctx) Put(key string, v interface{}) {
	c.mu.Lock()
	c.res.Extra[key] = v
	c.mu.Unlock()
}

func (c *Ctx) Rule(s string) { c.res.Rule = s }

func (c *Ctx) MinDistinct(n int) { c.res.MinDistinct = n }

func (c *Ctx) Assume(s ...string) { c.res.Assumptions = append(c.res.Assumptions, s...) }

func (c *Ctx) Violation(caseIdx int, sig, what string, detail interface{}) {
	c.mu.Lock()
	c.res.ViolationCount++
	// keep the first few per signature
	n := 0
	for _, v := range c.res.Violations {
		if v.Sig == sig {
			n++
		}
	}
	if n < 3 && len(c.res.Violations) < c.maxViol {
		c.res.Violations = append(c.res.Violations, Violation{Sig: sig, What: what, Case: caseIdx, Detail: detail})
	}
	c.mu.Unlock()
}

func (c *Ctx) Violations() int {
	c.mu.Lock()
	defer c.mu.Unlock()
	return c.res.ViolationCount
}

func (c *Ctx) Inconclusive(reason string) {
	c.mu.Lock()
	c.res.Inconclusive = append(c.res.Inconclusive, reason)
	c.mu.Unlock()
}

// Finish writes the result file. complete=false means the workload did not reach its end.
func (c *Ctx) Finish(complete bool) error {
	c.mu.Lock()
	defer c.mu.Unlock()
	c.res.Distinct = len(c.sigs)
	if c.Shards > 1 {
		c.res.Sigs = make([]string, 0, len(c.sigs))
		for k := range c.sigs {
			c.res.Sigs = append(c.res.Sigs, k)
		}
		c.res.Sets = map[string][]string{}
		for k, m := range c.sets {
			for v := range m {
				c.res.Sets[k] = append(c.res.Sets[k], v)
			}
		}
	}
	keys := make([]string, 0, len(c.counts))
	for k := range c.counts {
		keys = append(keys, k)
	}
	sort.Strings(keys)
	for _, k := range keys {
		c.res.Extra[k] = c.counts[k]
	}
	for k, m := range c.sets {
		c.res.Extra[k+"_distinct"] = len(m)
		if len(m) <= 40 {
			l := make([]string, 0, len(m))
			for s := range m {
				l = append(l, s)
			}
			sort.Strings(l)
			c.res.Extra[k+"_values"] = l
		}
	}
	c.res.WallS = time.Since(c.start).Seconds()
	c.res.Complete = complete
	b, err := json.MarshalIndent(&c.res, "", " ")
	if err != nil {
		return err
	}
	if c.progress != nil {
		c.progress.Close()
	}
	return os.WriteFile(c.out, b, 0o644)
}

// JSON renders v compactly for signatures and details.
func JSON(v interface{}) string {
	b, err := json.Marshal(v)
	if err != nil {
		return fmt.Sprintf("%v", v)
	}
	return string(b)
}
