package rt

import (
	"bytes"
	"context"
	"fmt"
	"io"
	"net/http"
	"net/url"
	"runtime"
	"strconv"
	"strings"
	"sync"
	"sync/atomic"

	restful "github.com/emicklei/go-restful/v3"
)

// Invoke is logged from inside a generated route function.
type Invoke struct {
	Body      string            `json:"body,omitempty"` // what the handler read from the request body (BuildOpts.ReadBody)
	RID       int               `json:"rid"`
	Params    map[string]string `json:"params"`
	SelPath   string            `json:"sel_path"`
	SelMethod string            `json:"sel_method"`
	SelRID    int               `json:"sel_rid"`
}

type CondEv struct {
	RID int  `json:"rid"`
	Idx int  `json:"idx"`
	Res bool `json:"res"`
}

type SelEv struct {
	Where  string `json:"where"`
	RID    int    `json:"rid"` // -1: no selected route
	Path   string `json:"path"`
	Method string `json:"method"`
	Attr   string `json:"attr,omitempty"` // request attribute "req-id" as seen by this filter
}

// Obs collects what handlers, filters and conditions saw for ONE request.
type Obs struct {
	mu      sync.Mutex
	Invokes []Invoke `json:"invokes,omitempty"`
	Conds   []CondEv `json:"conds,omitempty"`
	Sels    []SelEv  `json:"sels,omitempty"`
}

type obsKey struct{}

func ObsOf(r *http.Request) *Obs {
	o, _ := r.Context().Value(obsKey{}).(*Obs)
	return o
}

func (o *Obs) addInvoke(i Invoke) {
	o.mu.Lock()
	o.Invokes = append(o.Invokes, i)
	o.mu.Unlock()
}

// Rec is the harness's http.ResponseWriter.
type Rec struct {
	FailBody  bool // the client is gone: every body write fails
	H         http.Header
	Status    int
	Sent      http.Header // header snapshot at the moment the status line went out
	Body      bytes.Buffer
	WHCalls   int
	WriteCall int
	Flushes   []int // number of body bytes the client had been sent at each Flush
}

func NewRec() *Rec { return &Rec{H: http.Header{}} }

var errClientGone = fmt.Errorf("write: broken pipe (client gone)")

func (r *Rec) Header() http.Header { return r.H }

func (r *Rec) WriteHeader(s int) {
	r.WHCalls++
	if r.Status == 0 {
		r.Status = s
		r.Sent = r.H.Clone()
	}
}

func (r *Rec) Write(b []byte) (int, error) {
	if r.Status == 0 {
		r.WriteHeader(200)
	}
	if r.FailBody {
		return 0, errClientGone
	}
	r.WriteCall++
	return r.Body.Write(b)
}

// WriteString and Flush: like net/http's own response writer, the recording writer offers the optional
// io.StringWriter and http.Flusher interfaces (code that probes for them must find what a real server has).
func (r *Rec) WriteString(s string) (int, error) { return r.Write([]byte(s)) }

func (r *Rec) Flush() {
	if r.Status == 0 {
		r.WriteHeader(200)
	}
	r.Flushes = append(r.Flushes, r.Body.Len())
}

// ClientBody is the body as an HTTP/1.1 client receives it: when the response declares a Content-Length the client
// reads exactly that many bytes (fewer sent: it runs into an unexpected EOF; more sent: net/http refuses the surplus).
func (r *Rec) ClientBody() ([]byte, error) {
	b := r.Body.Bytes()
	if v := r.Hdr().Get("Content-Length"); v != "" {
		if n, err := strconv.Atoi(v); err == nil && n >= 0 {
			if len(b) < n {
				return b, fmt.Errorf("Content-Length declares %d bytes, %d were sent: the client gets an unexpected EOF", n, len(b))
			}
			if len(b) > n {
				return b[:n], fmt.Errorf("Content-Length declares %d bytes, %d were written", n, len(b))
			}
		}
	}
	return b, nil
}

// Code is the status a client would see.
func (r *Rec) Code() int {
	if r.Status == 0 {
		return 200
	}
	return r.Status
}

// Hdr returns the headers a client would see.
func (r *Rec) Hdr() http.Header {
	if r.Sent != nil {
		return r.Sent
	}
	return r.H
}

// Outcome is what one request produced.
type Outcome struct {
	Panicked bool        `json:"panicked,omitempty"`
	Panic    string      `json:"panic,omitempty"`
	PanicVal interface{} `json:"-"`
	Status   int         `json:"status"`
	Allow    []string    `json:"allow,omitempty"`
	Rec      *Rec        `json:"-"`
	Obs      *Obs        `json:"obs"`
}

// Class maps the outcome onto the reference classes.
func (o *Outcome) Class() string {
	if len(o.Obs.Invokes) > 0 {
		return ClsInvoke
	}
	return strconv.Itoa(o.Status)
}

// RID is the invoked route (-1 if none).
func (o *Outcome) RID() int {
	if len(o.Obs.Invokes) == 0 {
		return -1
	}
	return o.Obs.Invokes[0].RID
}

// Sig is a comparable signature: status, invoked route, parameters, Allow set.
func (o *Outcome) Sig() string {
	var b strings.Builder
	if o.Panicked {
		fmt.Fprintf(&b, "panic(%s) ", o.Panic)
	}
	fmt.Fprintf(&b, "status=%d n=%d", o.Status, len(o.Obs.Invokes))
	for _, iv := range o.Obs.Invokes {
		fmt.Fprintf(&b, " rid=%d params=%s", iv.RID, sortedMap(iv.Params))
	}
	if o.Allow != nil {
		fmt.Fprintf(&b, " allow=%v", o.Allow)
	}
	return b.String()
}

func sortedMap(m map[string]string) string {
	keys := make([]string, 0, len(m))
	for k := range m {
		keys = append(keys, k)
	}
	sortStrings(keys)
	var b strings.Builder
	b.WriteByte('{')
	for i, k := range keys {
		if i > 0 {
			b.WriteByte(',')
		}
		fmt.Fprintf(&b, "%s=%q", k, m[k])
	}
	b.WriteByte('}')
	return b.String()
}

func sortStrings(a []string) {
	for i := 1; i < len(a); i++ {
		for j := i; j > 0 && a[j] < a[j-1]; j-- {
			a[j], a[j-1] = a[j-1], a[j]
		}
	}
}

// BuildOpts controls how a Table becomes a Container.
type BuildOpts struct {
	Router     string  // "curly" | "jsr311"
	SvcOrder   []int   // permutation of service indexes (nil: as specified)
	RouteOrder [][]int // per service (indexed by position in Table.Svcs) permutation of route indexes
	SelFilters bool    // install one recording filter per level
	Markers    bool    // add observability routes GET / and GET /{tail:*} per service
	Dynamic    bool
	Only       int // >=0: build only the route with this ID (alone-eligibility), in its service
	OnlySvc    int // >=0: build only this service index
	WriteBody  bool
	Switched   bool // configure the other router first, then the wanted one (router switching must be unobservable)
	Entity     bool // route functions answer with WriteEntity (content negotiation) instead of raw bytes
	ReadBody   bool // route functions read the raw request body and log it
	// Default: use the package-level restful.DefaultContainer through the package-level functions (restful.Add,
	// restful.Filter). Its registrations cannot be undone, so only the first request per process is honoured.
	Default bool
}

var defaultContainerUsed bool

// DefaultContainerFree tells whether the package-level container is still unused in this process.
func DefaultContainerFree() bool { return !defaultContainerUsed }

// EntityDoc is what entity-writing route functions return.
type EntityDoc struct {
	XMLName struct{} `json:"-" xml:"doc"`
	Rid     int      `json:"rid" xml:"rid"`
}

func DefaultBuild(router string) BuildOpts {
	return BuildOpts{Router: router, Only: -1, OnlySvc: -1}
}

// MarkerBase is added to a service index to form the route ID of its observability routes.
const MarkerBase = 100000

func routeFunc(id int, entity ...bool) restful.RouteFunction {
	writeEntity := len(entity) > 0 && entity[0]
	readBody := len(entity) > 1 && entity[1]
	return func(req *restful.Request, resp *restful.Response) {
		o := ObsOf(req.Request)
		iv := Invoke{RID: id, Params: map[string]string{}, SelRID: -1}
		if readBody && req.Request.Body != nil {
			b, _ := io.ReadAll(io.LimitReader(req.Request.Body, 256))
			iv.Body = string(b)
		}
		for k, v := range req.PathParameters() {
			iv.Params[k] = v
			// the single-value accessor is the same binding read another way
			if got := req.PathParameter(k); got != v {
				iv.Params["!PathParameter("+k+")"] = got
			}
		}
		iv.SelPath = req.SelectedRoutePath()
		if sr := req.SelectedRoute(); sr != nil {
			iv.SelMethod = sr.Method()
			if v, ok := sr.Metadata()["rid"].(int); ok {
				iv.SelRID = v
			}
		}
		if o != nil {
			o.addInvoke(iv)
		}
		resp.AddHeader("X-Rid", strconv.Itoa(id))
		// what a handler does to its own Response on behalf of one request (asked for through the X-Do header)
		do := req.Request.Header.Get("X-Do")
		if do == "pretty-off" {
			resp.PrettyPrint(false)
		}
		if writeEntity {
			resp.WriteEntity(EntityDoc{Rid: id})
			if do == "flush" {
				resp.Flush()
			}
			return
		}
		resp.WriteHeader(200)
		if do == "flush" {
			// a streaming handler: the first chunk is pushed to the client before the rest is produced
			resp.Write([]byte("r"))
			resp.Flush()
			resp.Write([]byte(strconv.Itoa(id)))
			return
		}
		resp.Write([]byte("r" + strconv.Itoa(id)))
	}
}

// SelFilter is a recording filter (logs the selected route it sees, then passes control on).
func SelFilter(where string) restful.FilterFunction { return selFilter(where) }

// RouteFunc is the recording route function of generated tables, for scenarios that register routes by hand.
func RouteFunc(id int) restful.RouteFunction { return routeFunc(id) }

func selFilter(where string) restful.FilterFunction {
	return func(req *restful.Request, resp *restful.Response, chain *restful.FilterChain) {
		if o := ObsOf(req.Request); o != nil {
			ev := SelEv{Where: where, RID: -1, Path: req.SelectedRoutePath()}
			if a := req.Attribute("req-id"); a != nil {
				ev.Attr = fmt.Sprint(a)
			}
			if sr := req.SelectedRoute(); sr != nil {
				ev.Method = sr.Method()
				if v, ok := sr.Metadata()["rid"].(int); ok {
					ev.RID = v
				}
			}
			o.mu.Lock()
			o.Sels = append(o.Sels, ev)
			o.mu.Unlock()
		}
		runtime.Gosched() // a suspension point between route selection and the route function
		chain.ProcessFilter(req, resp)
	}
}

func condFunc(rid, idx int, hdr string) restful.RouteSelectionConditionFunction {
	return func(r *http.Request) bool {
		res := r.Header.Get(hdr) == "1"
		if o := ObsOf(r); o != nil {
			o.mu.Lock()
			o.Conds = append(o.Conds, CondEv{RID: rid, Idx: idx, Res: res})
			o.mu.Unlock()
		}
		return res
	}
}

// AddRoute registers one RouteSpec on a WebService.
func AddRoute(ws *restful.WebService, rs *RouteSpec, o BuildOpts) {
	b := ws.Method(rs.Method).Path(rs.Render()).To(routeFunc(rs.ID, o.Entity, o.ReadBody)).Operation("r"+strconv.Itoa(rs.ID)).Metadata("rid", rs.ID)
	if rs.ViaSvc {
		// the lists come from the WebService's defaults, which a RouteBuilder without own lists inherits when it is added
		ws.Consumes(rs.Consumes...)
		ws.Produces(rs.Produces...)
		defer func() {
			ws.Consumes()
			ws.Produces()
		}()
	} else {
		if len(rs.Consumes) > 0 {
			b.Consumes(rs.Consumes...)
		}
		if len(rs.Produces) > 0 {
			b.Produces(rs.Produces...)
		}
	}
	if len(rs.NoCT) > 0 {
		b.AllowedMethodsWithoutContentType(rs.NoCT)
	}
	switch rs.Enc {
	case 1:
		b.ContentEncodingEnabled(true)
	case 2:
		b.ContentEncodingEnabled(false)
	}
	for k, c := range rs.Conds {
		b.If(condFunc(rs.ID, k, c))
	}
	if o.SelFilters {
		b.Filter(selFilter("route:" + strconv.Itoa(rs.ID)))
	}
	ws.Route(b)
}

// NewService builds the WebService for a SvcSpec (routes in the given order; nil = as specified).
func NewService(s *SvcSpec, order []int, o BuildOpts, svcIdx int) *restful.WebService {
	ws := new(restful.WebService)
	if svcIdx%3 == 1 {
		ws.Path("/superseded/{x:[0-9]+}") // configuration calls may be repeated: the last root path counts
	}
	if s.RootStyle == 2 && len(s.Root) == 0 && svcIdx%3 != 1 {
		// no Path call at all: the root path defaults to "/" when the service is added
	} else {
		ws.Path(s.RenderRoot())
	}
	if o.Dynamic {
		ws.SetDynamicRoutes(true)
	}
	if o.SelFilters {
		ws.Filter(selFilter("service:" + strconv.Itoa(svcIdx)))
	}
	n := len(s.Routes)
	for k := 0; k < n; k++ {
		j := k
		if order != nil {
			j = order[k]
		}
		rs := &s.Routes[j]
		if o.Only >= 0 && rs.ID != o.Only {
			continue
		}
		AddRoute(ws, rs, o)
	}
	if o.Markers {
		id := MarkerBase + svcIdx
		ws.Route(ws.GET("/").To(routeFunc(id)).Metadata("rid", id))
		ws.Route(ws.GET("/{tail:*}").To(routeFunc(id)).Metadata("rid", id))
	}
	return ws
}

// Build turns a Table into a real container.
func Build(t *Table, o BuildOpts) *restful.Container {
	c, _ := BuildWS(t, o)
	return c
}

// BuildWS is Build that also hands out the WebServices (indexed like Table.Svcs; nil where a service was not built).
// RemoveRoutesLike removes, from a registered dynamic WebService, the route with the given id the way a user does it:
// look the route up in ws.Routes(), call RemoveRoute(route.Path, route.Method). RemoveRoute removes EVERY route of that
// method and path (twins in other representations included); the specification is updated accordingly and the ids that
// are gone are returned.
func RemoveRoutesLike(ws *restful.WebService, svc *SvcSpec, victimID int) (gone []int, err error) {
	var path, method string
	found := false
	for _, r := range ws.Routes() {
		if id, ok := r.Metadata["rid"].(int); ok && id == victimID {
			path, method, found = r.Path, r.Method, true
		}
	}
	if !found {
		return nil, nil
	}
	dead := map[int]bool{}
	for _, r := range ws.Routes() {
		if r.Path == path && r.Method == method {
			if id, ok := r.Metadata["rid"].(int); ok {
				dead[id] = true
				gone = append(gone, id)
			}
		}
	}
	err = ws.RemoveRoute(path, method)
	keep := svc.Routes[:0:0]
	for _, r := range svc.Routes {
		if !dead[r.ID] {
			keep = append(keep, r)
		}
	}
	svc.Routes = keep
	return gone, err
}

var switchedCount int32

func BuildWS(t *Table, o BuildOpts) (*restful.Container, []*restful.WebService) {
	wss := make([]*restful.WebService, len(t.Svcs))
	c := restful.NewContainer()
	useDefault := o.Default && !defaultContainerUsed
	if useDefault {
		defaultContainerUsed = true
		c = restful.DefaultContainer
	}
	late := false
	if o.Switched {
		if o.Router == "jsr311" {
			c.Router(restful.CurlyRouter{})
		} else {
			c.Router(restful.RouterJSR311{})
		}
		// every other switched container gets its final router only AFTER the WebServices were added
		late = atomic.AddInt32(&switchedCount, 1)%2 == 0
	}
	setRouter := func() {
		if o.Router == "jsr311" {
			c.Router(restful.RouterJSR311{})
		} else {
			c.Router(restful.CurlyRouter{})
		}
	}
	if !late {
		setRouter()
	} else {
		defer setRouter()
	}
	if o.SelFilters {
		if useDefault {
			restful.Filter(selFilter("container"))
		} else {
			c.Filter(selFilter("container"))
		}
	}
	n := len(t.Svcs)
	for k := 0; k < n; k++ {
		i := k
		if o.SvcOrder != nil {
			i = o.SvcOrder[k]
		}
		if o.OnlySvc >= 0 && i != o.OnlySvc {
			continue
		}
		s := &t.Svcs[i]
		if o.Only >= 0 {
			has := false
			for j := range s.Routes {
				if s.Routes[j].ID == o.Only {
					has = true
				}
			}
			if !has {
				continue
			}
		}
		var ord []int
		if o.RouteOrder != nil {
			ord = o.RouteOrder[i]
		}
		wss[i] = NewService(s, ord, o, i)
		if useDefault {
			restful.Add(wss[i])
		} else {
			c.Add(wss[i])
		}
	}
	return c, wss
}

// Entry points.
const (
	Dispatch  = "Dispatch"
	ServeHTTP = "ServeHTTP"
)

// HTTPRequest builds the http.Request by hand, keeping ContentLength, the Content-Length
// header and the body consistent (DESIGN §4.10).
func HTTPRequest(req *Req, obs *Obs) *http.Request {
	h := http.Header{}
	for k, v := range req.Hdr {
		h.Set(k, v)
	}
	if req.HasCT {
		h["Content-Type"] = []string{req.CT}
	}
	if req.HasAcc {
		h["Accept"] = []string{req.Accept}
	}
	for k, vs := range req.More {
		if len(h[k]) > 0 {
			h[k] = append(h[k], vs...)
		}
	}
	hr := &http.Request{
		Method:     req.Method,
		URL:        &url.URL{Path: req.Path, RawPath: req.RawPath, RawQuery: req.Query},
		Proto:      "HTTP/1.1",
		ProtoMajor: 1,
		ProtoMinor: 1,
		Header:     h,
		Host:       "verif.test",
		RequestURI: req.Path,
		Body:       http.NoBody,
	}
	if req.Query != "" {
		hr.RequestURI = req.Path + "?" + req.Query
	}
	if req.BodyLen > 0 {
		body := []byte(strings.Repeat("b", req.BodyLen))
		if req.Body != nil {
			body = req.Body
		}
		hr.Body = io.NopCloser(bytes.NewReader(body))
		if req.Slow {
			hr.Body = &slowReader{b: body}
		}
		hr.ContentLength = int64(req.BodyLen)
		h.Set("Content-Length", strconv.Itoa(req.BodyLen))
	}
	if obs != nil {
		hr = hr.WithContext(context.WithValue(context.Background(), obsKey{}, obs))
	}
	return hr
}

// slowReader hands out a few bytes per Read and yields in between, so that concurrent readers interleave.
type slowReader struct {
	b []byte
	i int
}

func (s *slowReader) Read(p []byte) (int, error) {
	if s.i >= len(s.b) {
		return 0, io.EOF
	}
	runtime.Gosched()
	n := 9
	if n > len(p) {
		n = len(p)
	}
	if s.i+n > len(s.b) {
		n = len(s.b) - s.i
	}
	copy(p, s.b[s.i:s.i+n])
	s.i += n
	return n, nil
}

func (s *slowReader) Close() error { return nil }

// Run sends the request through the entry point and returns what was observed.
func Run(c *restful.Container, entry string, req *Req) (out *Outcome) {
	return RunRec(c, entry, req, NewRec())
}

// RunRec is Run with a recording writer chosen by the caller (e.g. one whose client is gone).
func RunRec(c *restful.Container, entry string, req *Req, rec *Rec) (out *Outcome) {
	obs := &Obs{}
	out = &Outcome{Obs: obs, Rec: rec}
	hr := HTTPRequest(req, obs)
	func() {
		defer func() {
			if p := recover(); p != nil {
				out.Panicked = true
				out.PanicVal = p
				out.Panic = fmt.Sprint(p)
				if len(out.Panic) > 200 {
					out.Panic = out.Panic[:200]
				}
			}
		}()
		if entry == ServeHTTP {
			c.ServeHTTP(rec, hr)
		} else {
			c.Dispatch(rec, hr)
		}
	}()
	out.Status = rec.Code()
	if v, ok := rec.Hdr()["Allow"]; ok {
		out.Allow = ParseAllow(strings.Join(v, ","))
	}
	return out
}
