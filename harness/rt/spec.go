// Package rt is the routing toolkit shared by the routing properties: table/request
// specifications, seeded generators, the builder that turns a specification into a
// real restful.Container whose handlers, filters and conditions log what they see,
// the runner that sends a hand-built http.Request through an entry point, and the
// three-valued reference model (match / no-match / unspecified).
package rt

import (
	"regexp"
	"strconv"
	"strings"
)

type SegKind int

const (
	Lit    SegKind = iota // literal segment
	Var                   // {v}
	VarRe                 // {v:regex}
	VarSuf                // {v}suffix   (CurlyRouter only)
	Wild                  // {v:*}       (last segment only)
	VarPre                // prefix{v} or prefix{v:regex}: CurlyRouter never matches such a token today (compared as a literal);
	// the properties speak of "a literal prefix/suffix around a variable", so a router that does match it must bind the text behind the prefix
)

// Seg is one path segment of a template.
type Seg struct {
	Kind  SegKind `json:"k"`
	Lit   string  `json:"lit,omitempty"`
	Name  string  `json:"name,omitempty"`
	Re    int     `json:"re,omitempty"`
	Suf   string  `json:"suf,omitempty"`
	Verb  string  `json:"verb,omitempty"`   // custom verb (CurlyRouter only, last segment only)
	PreRe bool    `json:"pre_re,omitempty"` // VarPre: the variable carries regex Re
	// ReVar > 0: the expression is written as "(?:<regex Re>)|QQ<ReVar>": another string with the same meaning on
	// every value the generators produce (none contains QQ), so a process meets hundreds of distinct expressions
	ReVar int `json:"re_variant,omitempty"`
}

// ReSrc is the regular expression as written into the template.
func (s Seg) ReSrc() string {
	if s.ReVar > 0 {
		return "(?:" + Regexes[s.Re].Src + ")|QQ" + strconv.Itoa(s.ReVar)
	}
	return Regexes[s.Re].Src
}

func (s Seg) String() string {
	var b string
	switch s.Kind {
	case Lit:
		b = s.Lit
	case Var:
		b = "{" + s.Name + "}"
	case VarRe:
		b = "{" + s.Name + ":" + s.ReSrc() + "}"
	case VarSuf:
		b = "{" + s.Name + "}" + s.Suf
	case Wild:
		b = "{" + s.Name + ":*}"
	case VarPre:
		b = s.Lit + "{" + s.Name + "}"
		if s.PreRe {
			b = s.Lit + "{" + s.Name + ":" + s.ReSrc() + "}"
		}
	}
	if s.Verb != "" {
		b += ":" + s.Verb
	}
	return b
}

// IsLit tells whether the segment is a literal (with or without verb).
func (s Seg) IsLit() bool { return s.Kind == Lit }

// Shape is L for literal, V for any variable kind, W for the tail wildcard.
func (s Seg) Shape() byte {
	switch s.Kind {
	case Lit:
		return 'L'
	case Wild:
		return 'W'
	}
	return 'V'
}

type Tmpl []Seg

func (t Tmpl) String() string {
	if len(t) == 0 {
		return "/"
	}
	parts := make([]string, len(t))
	for i, s := range t {
		parts[i] = s.String()
	}
	return "/" + strings.Join(parts, "/")
}

func (t Tmpl) Shape() string {
	b := make([]byte, len(t))
	for i, s := range t {
		b[i] = s.Shape()
	}
	return string(b)
}

// KindShape distinguishes the variable kinds too (l v r s w, upper-case when a verb is attached).
func (t Tmpl) KindShape() string {
	b := make([]byte, len(t))
	for i, s := range t {
		c := "lvrswp"[s.Kind]
		if s.Verb != "" {
			c = c - 'a' + 'A'
		}
		b[i] = c
	}
	return string(b)
}

func (t Tmpl) VarNames() []string {
	var out []string
	for _, s := range t {
		if s.Kind != Lit {
			out = append(out, s.Name)
		}
	}
	return out
}

func (t Tmpl) HasKind(k SegKind) bool {
	for _, s := range t {
		if s.Kind == k {
			return true
		}
	}
	return false
}

func (t Tmpl) HasVerb() bool {
	for _, s := range t {
		if s.Verb != "" {
			return true
		}
	}
	return false
}

func (t Tmpl) AllLit() bool {
	for _, s := range t {
		if s.Kind != Lit {
			return false
		}
	}
	return true
}

// RegexSpec is a variable constraint with values that match it completely and
// values that contain no match at all (the two determinate zones, DESIGN §4.1).
type RegexSpec struct {
	Src  string
	Yes  []string
	No   []string
	Part []string // values that only partially match: unspecified zone
	// CurlyOnly: only used in CurlyRouter tables (the expression could match a '/' when RouterJSR311 applies it to the
	// whole path; CurlyRouter applies it to one token)
	CurlyOnly bool
	full      *regexp.Regexp
	part      *regexp.Regexp
}

var Regexes = []*RegexSpec{
	{Src: "[0-9]+", Yes: []string{"1", "42", "007", "1234567890"}, No: []string{"abc", "x-y", "_", "\u0661\u0662\u0663", "\uff11\uff12"}, Part: []string{"12a", "a1"}},
	{Src: "[a-z]+", Yes: []string{"a", "abc", "zzz"}, No: []string{"123", "X9", "_", "\uff41\uff42", "\u0430\u0431"}, Part: []string{"ab1", "Xa"}},
	{Src: "[A-Z][A-Z][0-9][0-9]", Yes: []string{"AB12", "ZZ00"}, No: []string{"ab12", "A1", "12AB"}, Part: []string{"AB123", "xAB12"}},
	{Src: "[0-9a-f]{8}", Yes: []string{"deadbeef", "01234567"}, No: []string{"xyz", "DEADBEEF", "dead"}, Part: []string{"deadbeef0", "xdeadbeef"}},
	{Src: "v[0-9]", Yes: []string{"v1", "v9"}, No: []string{"w1", "1v", "V1"}, Part: []string{"v10", "xv1"}},
	{Src: "[a-z]+-[0-9]+", Yes: []string{"ab-12", "z-0"}, No: []string{"ab12", "AB-12", "-"}, Part: []string{"ab-12x", "1ab-1"}},
	{Src: "[a-z]+(-[0-9]+)?", Yes: []string{"ab", "ab-12", "z-0"}, No: []string{"12", "AB", "_"}, Part: []string{"ab-", "1ab", "ab-12x"}},
	{Src: "(x|y)[0-9]", Yes: []string{"x1", "y9"}, No: []string{"z1", "X1", "xy"}, Part: []string{"x12", "ax1"}},
	{Src: "\\d\\d\\d", Yes: []string{"123", "000"}, No: []string{"12", "abc", "1a2", "\u0661\u0662\u0663", "\uff11\uff12\uff13"}, Part: []string{"1234"}},
	// expressions that END in '*' or '+' (a quantifier, not the tail wildcard {v:*}): the variable still stands for one segment
	{Src: "[a-z][0-9]*", Yes: []string{"a", "a1", "z99"}, No: []string{"1", "A1", "_", "-9"}, Part: []string{"a1x", "1a"}},
	{Src: "[0-9]+[a-z]*", Yes: []string{"1", "12ab", "7z"}, No: []string{"ab", "_", "X"}, Part: []string{"ab1", "1A"}},
}

func init() {
	// three parametric families, so that a process meets more distinct expressions than any small cache holds (35 in all)
	rep := strings.Repeat
	for k := 1; k <= 8; k++ {
		ks := string(rune('0' + k))
		Regexes = append(Regexes,
			&RegexSpec{Src: "[0-9]{" + ks + "}", Yes: []string{rep("7", k), "01234567"[:k]}, No: []string{"abc", "x-y", "_"}, Part: []string{rep("1", k+1), "a" + rep("2", k)}},
			&RegexSpec{Src: "[a-c]{" + ks + "}z", Yes: []string{rep("a", k) + "z", "abcabcab"[:k] + "z"}, No: []string{"123", "zzz", "_"}, Part: []string{rep("a", k) + "zz", "1" + rep("b", k) + "z"}},
			&RegexSpec{Src: "x{" + string(rune('1'+k)) + "}[0-9]", Yes: []string{rep("x", k+1) + "5", rep("x", k+1) + "0"}, No: []string{"x5", "yyy", "_"}, Part: []string{rep("x", k+1) + "55", "a" + rep("x", k+1) + "5"}},
		)
	}
	// ".*": any token (in a CurlyRouter template still exactly one token; only {v:*} is the tail wildcard)
	Regexes = append(Regexes, &RegexSpec{Src: ".*", Yes: []string{"a", "abc", "x-y", "42", "a.b"}, CurlyOnly: true})
	for _, r := range Regexes {
		r.full = regexp.MustCompile("^(?:" + r.Src + ")$")
		r.part = regexp.MustCompile(r.Src)
	}
}

// RouteSpec describes one route.
type RouteSpec struct {
	ID       int      `json:"id"`
	Method   string   `json:"method"`
	Path     Tmpl     `json:"-"`
	PathStr  string   `json:"path"`  // as handed to the RouteBuilder (style applied)
	Style    int      `json:"style"` // 0 "/a/b", 1 "a/b", 2 "/a/b/"
	Consumes []string `json:"consumes,omitempty"`
	Produces []string `json:"produces,omitempty"`
	Conds    []string `json:"conds,omitempty"` // condition k is true iff request header Conds[k] == "1"
	NoCT     []string `json:"noct,omitempty"`  // AllowedMethodsWithoutContentType
	Marker   bool     `json:"marker,omitempty"`
	Enc      int      `json:"content_encoding_override,omitempty"` // 1: ContentEncodingEnabled(true), 2: ContentEncodingEnabled(false)
	// ViaSvc: Consumes/Produces are not set on the RouteBuilder but inherited from WebService.Consumes/Produces
	ViaSvc bool `json:"via_service_defaults,omitempty"`
}

// Render returns the path string as given to the RouteBuilder.
func (r *RouteSpec) Render() string {
	s := r.Path.String()
	switch r.Style {
	case 1:
		return strings.TrimPrefix(s, "/")
	case 2:
		if s != "/" {
			return s + "/"
		}
	case 3:
		if len(r.Path) == 0 {
			return ""
		}
	}
	return s
}

type SvcSpec struct {
	ID        int         `json:"id"`
	Root      Tmpl        `json:"-"`
	RootS     string      `json:"root"`
	RootStyle int         `json:"root_style,omitempty"` // 1: the root path is declared with a trailing slash ("/users/"); 2 (root "/" only): WebService.Path is never called
	Routes    []RouteSpec `json:"routes"`
}

// RenderRoot returns the root path string as handed to WebService.Path.
func (s *SvcSpec) RenderRoot() string {
	r := s.Root.String()
	if s.RootStyle == 1 && r != "/" {
		return r + "/"
	}
	return r
}

// Table is a set of WebServices.
type Table struct {
	Svcs []SvcSpec `json:"services"`
}

// Fill renders the string forms (for JSON samples / replay files).
func (t *Table) Fill() *Table {
	for i := range t.Svcs {
		t.Svcs[i].RootS = t.Svcs[i].RenderRoot()
		for j := range t.Svcs[i].Routes {
			t.Svcs[i].Routes[j].PathStr = t.Svcs[i].Routes[j].Render()
		}
	}
	return t
}

func (t *Table) Route(id int) (*SvcSpec, *RouteSpec) {
	for i := range t.Svcs {
		for j := range t.Svcs[i].Routes {
			if t.Svcs[i].Routes[j].ID == id {
				return &t.Svcs[i], &t.Svcs[i].Routes[j]
			}
		}
	}
	return nil, nil
}

func (t *Table) NumRoutes() int {
	n := 0
	for i := range t.Svcs {
		n += len(t.Svcs[i].Routes)
	}
	return n
}

// Full returns root ++ route path.
func Full(s *SvcSpec, r *RouteSpec) Tmpl {
	out := make(Tmpl, 0, len(s.Root)+len(r.Path))
	out = append(out, s.Root...)
	out = append(out, r.Path...)
	return out
}

// Req is a request specification; the http.Request is built by hand from it (DESIGN §4.10).
type Req struct {
	Method  string            `json:"method"`
	Path    string            `json:"path"`
	Query   string            `json:"query,omitempty"`    // URL.RawQuery (routing looks at the path only)
	RawPath string            `json:"raw_path,omitempty"` // URL.RawPath as a server sets it when the wire form is not the default encoding
	HasCT   bool              `json:"has_ct,omitempty"`
	CT      string            `json:"ct,omitempty"`
	HasAcc  bool              `json:"has_accept,omitempty"`
	Accept  string            `json:"accept,omitempty"`
	BodyLen int               `json:"body_len,omitempty"`
	Body    []byte            `json:"-"`                   // explicit body bytes (BodyLen must equal len(Body)); nil: BodyLen times 'b'
	BodyStr string            `json:"body,omitempty"`      // Body for the record
	Slow    bool              `json:"slow_body,omitempty"` // the body arrives in small slices with a yield in between
	Hdr     map[string]string `json:"hdr,omitempty"`
	// More holds further field values of a header AFTER its first one (the framework reads the first field)
	More  map[string][]string `json:"more_header_fields,omitempty"`
	Class string              `json:"class,omitempty"` // how the generator made it (hit, near:<mutation>, adv)
}

func (r Req) Cond(name string) bool { return r.Hdr[name] == "1" }

func (r Req) WithPath(p string) Req {
	c := r
	c.Path = p
	c.RawPath = ""
	return c
}
