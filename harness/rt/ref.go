package rt

import (
	"sort"
	"strings"
	"unicode/utf8"
)

// Tri is the three-valued answer of the reference model.
type Tri int

const (
	No Tri = iota
	Yes
	Unspec // the properties are silent (DESIGN §4): never judged, only counted
)

func (t Tri) String() string { return [...]string{"no", "yes", "unspec"}[t] }

// Tokens splits a request path the way both routers agree on for clean paths.
// clean=false means the path is in the unspecified zone (empty segments, no leading
// slash, newline, invalid UTF-8): only totality is judged there.
func Tokens(p string) (tokens []string, clean bool) {
	if !strings.HasPrefix(p, "/") || strings.Contains(p, "\n") || strings.Contains(p, "\r") || !utf8.ValidString(p) {
		return nil, false
	}
	q := p[1:]
	if strings.HasSuffix(q, "/") {
		q = q[:len(q)-1]
	}
	if q == "" {
		return nil, p == "/" // "//" is unclean
	}
	tokens = strings.Split(q, "/")
	for _, t := range tokens {
		if t == "" {
			return nil, false
		}
	}
	return tokens, true
}

// matchSeg matches one template segment against one token.
func matchSeg(s Seg, tok string) (Tri, string) {
	if s.Verb != "" {
		suf := ":" + s.Verb
		if !strings.HasSuffix(tok, suf) {
			return No, ""
		}
		tok = tok[:len(tok)-len(suf)]
	}
	switch s.Kind {
	case Lit:
		if tok == s.Lit {
			return Yes, ""
		}
		return No, ""
	case Var:
		if tok == "" {
			return Unspec, ""
		}
		return Yes, tok
	case VarRe:
		r := Regexes[s.Re]
		if r.full.MatchString(tok) {
			return Yes, tok
		}
		if !r.part.MatchString(tok) {
			return No, ""
		}
		return Unspec, tok
	case VarSuf:
		if len(tok) > len(s.Suf) && strings.HasSuffix(tok, s.Suf) {
			return Yes, tok[:len(tok)-len(s.Suf)]
		}
		return No, ""
	case VarPre:
		// whether a router matches prefix{v} at all is unspecified; if it does, the value is the text behind the prefix
		if len(tok) > len(s.Lit) && strings.HasPrefix(tok, s.Lit) {
			v := tok[len(s.Lit):]
			if s.PreRe && !Regexes[s.Re].full.MatchString(v) {
				return No, ""
			}
			return Unspec, v
		}
		return No, ""
	}
	return Unspec, ""
}

// MatchFullLoose is MatchFull with every prefix{v} segment that COULD match counted as matching: the reference
// bindings for a route function that did run on such a template.
func MatchFullLoose(full Tmpl, tokens []string) (Tri, map[string]string) {
	tri, binds := MatchFull(full, tokens)
	if tri != Unspec {
		return tri, binds
	}
	limit := len(full)
	if limit > 0 && full[limit-1].Kind == Wild {
		limit--
		if len(tokens) <= limit {
			return Unspec, binds
		}
	}
	for i := 0; i < limit; i++ {
		if t, _ := matchSeg(full[i], tokens[i]); t == Unspec && full[i].Kind != VarPre {
			return Unspec, binds
		}
	}
	return Yes, binds
}

func combine(a, b Tri) Tri {
	if a == No || b == No {
		return No
	}
	if a == Unspec || b == Unspec {
		return Unspec
	}
	return Yes
}

// MatchFull matches a complete template (root ++ route path) against the tokens of a clean path.
// binds holds the reference parameter values when the answer is Yes.
func MatchFull(full Tmpl, tokens []string) (Tri, map[string]string) {
	n := len(full)
	binds := map[string]string{}
	res := Yes
	limit := n
	if n > 0 && full[n-1].Kind == Wild {
		limit = n - 1
		if len(tokens) < limit {
			return No, nil
		}
		if len(tokens) == limit {
			res = Unspec // zero remaining segments for the tail wildcard (DESIGN §4.3)
		} else {
			binds[full[n-1].Name] = strings.Join(tokens[limit:], "/")
		}
	} else if len(tokens) != n {
		return No, nil
	}
	for i := 0; i < limit; i++ {
		t, v := matchSeg(full[i], tokens[i])
		res = combine(res, t)
		if res == No {
			return No, nil
		}
		if full[i].Kind != Lit {
			binds[full[i].Name] = v
		}
	}
	return res, binds
}

// MatchRoot matches a WebService root path against a prefix of the tokens.
func MatchRoot(root Tmpl, tokens []string) Tri {
	if len(tokens) < len(root) {
		return No
	}
	res := Yes
	for i, s := range root {
		t, _ := matchSeg(s, tokens[i])
		res = combine(res, t)
		if res == No {
			return No
		}
	}
	return res
}

// dominates: a is strictly more specific than b in the sense of C03 (literal beats
// variable, a longer matching root beats its own prefix), for roots matching the same URL.
func dominates(a, b Tmpl) bool {
	if len(a) < len(b) {
		return false
	}
	strict := len(a) > len(b)
	for i := range b {
		if b[i].Kind == Lit && a[i].Kind != Lit {
			return false
		}
		if a[i].Kind == Lit && b[i].Kind != Lit {
			strict = true
		}
	}
	return strict
}

// RootChoice is the reference answer for "which WebService handles this URL".
type RootChoice struct {
	Cands  []int // indexes into Table.Svcs
	Strong bool  // exactly one admissible answer
	Unspec bool  // some root match is unspecified: no exact verdict
}

// ChooseRoot applies C02/C03's root rule. router is "curly" or "jsr311".
func ChooseRoot(t *Table, tokens []string, router string) RootChoice {
	var matching []int
	anyVar := false
	for i := range t.Svcs {
		switch MatchRoot(t.Svcs[i].Root, tokens) {
		case Yes:
			matching = append(matching, i)
			if !t.Svcs[i].Root.AllLit() {
				anyVar = true
			}
		case Unspec:
			return RootChoice{Unspec: true}
		}
	}
	if len(matching) == 0 {
		return RootChoice{Strong: true}
	}
	if router == "jsr311" && anyVar {
		// RouterJSR311 is only specified where at most one variable root competes
		if len(matching) == 1 {
			return RootChoice{Cands: matching, Strong: true}
		}
		return RootChoice{Cands: matching}
	}
	var maximal []int
	for _, i := range matching {
		dominated := false
		for _, j := range matching {
			if i != j && dominates(t.Svcs[j].Root, t.Svcs[i].Root) {
				dominated = true
				break
			}
		}
		if !dominated {
			maximal = append(maximal, i)
		}
	}
	return RootChoice{Cands: maximal, Strong: len(maximal) == 1}
}

// Outcome classes.
const (
	ClsInvoke = "invoke"
	Cls404    = "404"
	Cls405    = "405"
	Cls415    = "415"
	Cls406    = "406"
)

// Pred is one admissible outcome.
type Pred struct {
	Class    string   `json:"class"`
	Routes   []int    `json:"routes,omitempty"`    // admissible invoked routes
	AllowMin []string `json:"allow_min,omitempty"` // methods of path-matching routes whose conditions hold
	AllowMax []string `json:"allow_max,omitempty"` // methods of all path-matching routes
	Stage    string   `json:"stage,omitempty"`
}

// CTAdmitted is the documented Consumes rule.
func CTAdmitted(r *RouteSpec, req *Req) bool {
	if len(r.Consumes) == 0 {
		return true
	}
	ct := req.CT
	if !req.HasCT || ct == "" {
		m := r.Method
		if len(r.NoCT) > 0 {
			for _, x := range r.NoCT {
				if x == m {
					return true
				}
			}
		} else if m == "GET" || m == "HEAD" || m == "OPTIONS" || m == "DELETE" || m == "TRACE" {
			return true
		}
		ct = "application/octet-stream"
	}
	for _, el := range strings.Split(ct, ",") {
		if i := strings.Index(el, ";"); i >= 0 {
			el = el[:i]
		}
		el = strings.Trim(el, " ")
		for _, c := range r.Consumes {
			if c == "*/*" || c == el {
				return true
			}
		}
	}
	return false
}

// AcceptSatisfiable is the documented Produces rule (absent Accept = */*).
func AcceptSatisfiable(r *RouteSpec, req *Req) bool {
	acc := req.Accept
	if !req.HasAcc || acc == "" {
		acc = "*/*"
	}
	for _, el := range strings.Split(acc, ",") {
		if i := strings.Index(el, ";"); i >= 0 {
			el = el[:i]
		}
		el = strings.Trim(el, " ")
		if el == "*/*" {
			return true
		}
		for _, p := range r.Produces {
			if p == "*/*" || p == el {
				return true
			}
		}
	}
	return false
}

func CondsHold(r *RouteSpec, req *Req) bool {
	for _, c := range r.Conds {
		if !req.Cond(c) {
			return false
		}
	}
	return true
}

func methodSet(rs []*RouteSpec) []string {
	m := map[string]bool{}
	for _, r := range rs {
		m[r.Method] = true
	}
	out := make([]string, 0, len(m))
	for k := range m {
		out = append(out, k)
	}
	sort.Strings(out)
	return out
}

// predictResolved runs the staged elimination for one resolution of the path stage.
func predictResolved(pathOK []*RouteSpec, req *Req) Pred {
	if len(pathOK) == 0 {
		return Pred{Class: Cls404, Stage: "path"}
	}
	var c []*RouteSpec
	for _, r := range pathOK {
		if CondsHold(r, req) {
			c = append(c, r)
		}
	}
	if len(c) == 0 {
		return Pred{Class: Cls404, Stage: "cond"}
	}
	var m []*RouteSpec
	for _, r := range c {
		if r.Method == req.Method {
			m = append(m, r)
		}
	}
	if len(m) == 0 {
		return Pred{Class: Cls405, AllowMin: methodSet(c), AllowMax: methodSet(pathOK), Stage: "method"}
	}
	var t []*RouteSpec
	for _, r := range m {
		if CTAdmitted(r, req) {
			t = append(t, r)
		}
	}
	if len(t) == 0 && req.BodyLen > 0 {
		return Pred{Class: Cls415, Stage: "ct"}
	}
	var a []*RouteSpec
	for _, r := range t {
		if AcceptSatisfiable(r, req) {
			a = append(a, r)
		}
	}
	if len(a) == 0 {
		if (req.Method == "POST" || req.Method == "PUT" || req.Method == "PATCH") && req.BodyLen == 0 {
			return Pred{Class: Cls415, Stage: "accept-bodyless"}
		}
		return Pred{Class: Cls406, Stage: "accept"}
	}
	ids := make([]int, len(a))
	for i, r := range a {
		ids[i] = r.ID
	}
	sort.Ints(ids)
	return Pred{Class: ClsInvoke, Routes: ids, Stage: "ok"}
}

// PredictSvc returns every admissible outcome for the request inside one WebService.
// ok=false: too many unspecified route matches to enumerate (no verdict).
func PredictSvc(s *SvcSpec, tokens []string, req *Req) (preds []Pred, unspec int, ok bool) {
	var sure, maybe []*RouteSpec
	for j := range s.Routes {
		r := &s.Routes[j]
		tri, _ := MatchFull(Full(s, r), tokens)
		switch tri {
		case Yes:
			sure = append(sure, r)
		case Unspec:
			maybe = append(maybe, r)
		}
	}
	if len(maybe) > 5 {
		return nil, len(maybe), false
	}
	for mask := 0; mask < 1<<uint(len(maybe)); mask++ {
		set := append([]*RouteSpec{}, sure...)
		for k, r := range maybe {
			if mask&(1<<uint(k)) != 0 {
				set = append(set, r)
			}
		}
		preds = append(preds, predictResolved(set, req))
	}
	return preds, len(maybe), true
}

// Predict returns the admissible outcomes for the request on the whole table.
// verdict=false: the case lies (partly) in an unspecified zone and gets no exact-class verdict.
func Predict(t *Table, req *Req, router string) (preds []Pred, strong bool, verdict bool) {
	tokens, clean := Tokens(req.Path)
	if !clean {
		return nil, false, false
	}
	rc := ChooseRoot(t, tokens, router)
	if rc.Unspec {
		return nil, false, false
	}
	if len(rc.Cands) == 0 {
		return []Pred{{Class: Cls404, Stage: "root"}}, true, true
	}
	anyUnspec := false
	for _, i := range rc.Cands {
		p, u, ok := PredictSvc(&t.Svcs[i], tokens, req)
		if !ok {
			return nil, false, false
		}
		if u > 0 {
			anyUnspec = true
		}
		preds = append(preds, p...)
	}
	return preds, rc.Strong && !anyUnspec, true
}

// ParseAllow splits an Allow header value into a sorted set.
func ParseAllow(v string) []string {
	m := map[string]bool{}
	for _, x := range strings.Split(v, ",") {
		x = strings.TrimSpace(x)
		if x != "" {
			m[x] = true
		}
	}
	out := make([]string, 0, len(m))
	for k := range m {
		out = append(out, k)
	}
	sort.Strings(out)
	return out
}

func subset(a, b []string) bool {
	m := map[string]bool{}
	for _, x := range b {
		m[x] = true
	}
	for _, x := range a {
		if !m[x] {
			return false
		}
	}
	return true
}

// Admits tells whether an observed (class, invoked route, Allow set) is one of the admissible outcomes.
func Admits(preds []Pred, class string, rid int, allow []string) bool {
	for _, p := range preds {
		if p.Class != class {
			continue
		}
		switch class {
		case ClsInvoke:
			for _, id := range p.Routes {
				if id == rid {
					return true
				}
			}
		case Cls405:
			if subset(p.AllowMin, allow) && subset(allow, p.AllowMax) {
				return true
			}
		default:
			return true
		}
	}
	return false
}
