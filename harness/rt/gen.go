package rt

import (
	"fmt"
	"net/url"
	"strings"

	"verifharness/core"
)

var (
	Literals = []string{"a", "b", "c", "ab", "users", "x1", "A", "a.b", "v1", "123", "abc", "z-0", "index.json", "a-x", "c.foo", "b_v2"}
	// ExoticLits are literal route segments that need escaping on the wire (the routers see the decoded path);
	// not used in root paths: net/http's ServeMux gives blanks and braces in patterns a meaning of their own
	ExoticLits = []string{"ünï", "a b", "x+y", "q@r", "50%", "a,b", "(x)", "日本", "a=b", "~t", "$1", "a;b"}
	Suffixes   = []string{".json", ".foo", "-x", "_v2", "x", "."} // also one-character suffixes
	Verbs      = []string{"cancel", "run", "Verb"}
	Methods    = []string{"GET", "POST", "PUT", "DELETE", "PATCH", "HEAD"}
	Medias     = []string{"application/json", "application/xml", "text/plain", "application/x-verif"}
	VarVals    = []string{"index", "a", "x", "42", "a.b", "A", "ünï", "p:q", "x%2Fy", "abc", "007", "a b", "{x}", "v1", "z-0", "q.json", "longlonglonglonglonglonglonglonglonglonglonglonglonglonglonglonglonglonglonglong", strings.Repeat("w", 1025)}
)

// GenOpts selects the template fragment and table shape.
type GenOpts struct {
	Router      string // "curly" | "jsr311" | "common" (fragment both routers document)
	MaxSvcs     int
	MaxRoutes   int
	MaxRootLen  int
	MaxPathLen  int
	VarRoots    bool // allow {v} / {v:re} in root paths
	Conds       bool
	Media       bool // Consumes / Produces lists
	Distinct    bool // (method, template) pairs distinct inside a service; root shapes distinct
	NoWild      bool
	NoRegex     bool
	PlainOnly   bool     // literals and {v} only (C17 / C18 fragment)
	Styles      bool     // vary how the route path string is written ("a/b", "/a/b/")
	StarMedia   bool     // allow */* inside Consumes/Produces
	Nested      bool     // literal roots that nest (/, /a, /a/b)
	Methods     []string // method pool (nil: all six)
	OddMethods  bool     // now and then a method outside the usual six (extension methods, OPTIONS)
	Twins       bool     // now and then a second route with the same method and path but other Consumes/Produces
	MinSvcs     int
	NoCurlyOnly bool // no expressions that only CurlyRouter applies token-wise (tables answered by the OPTIONS filter, which uses RouterJSR311's engine)
	MinPathLen  int  // shortest route path (segments)
	// LitSkew: pooled paths use one-character literals and mostly literals; their mirror images get few long literals whose
	// characters add up to the pooled path's literal characters -1, +0 or +1 (near ties of "number of literal characters"
	// between templates whose numbers of literal segments and of variables differ a lot)
	LitSkew  bool
	MediaMax int // longest Consumes / Produces list (0: 2); beyond 4 the pool is extended by MoreMedias
	CondMax  int // most If-conditions per route (0: 2)
	// DupNames: now and then a variable gets the name of the variable declared before it (/nodes/{id}/edges/{id}): which value
	// a handler then sees under that name is not specified, but two routers (or two runs) must agree on it
	DupNames bool
}

// MoreMedias extends the media pool for long Consumes / Produces lists.
var MoreMedias = []string{"application/x-t0", "application/x-t1", "application/x-t2", "application/x-t3", "application/x-t4", "application/x-t5", "application/x-t6", "application/x-t7",
	"application/x-t8", "application/x-t9", "application/x-t10", "application/x-t11", "application/x-t12", "application/x-t13", "application/x-t14", "application/x-t15"}

// Scale turns generator options into one of the "large" table shapes (counts beyond what small tables reach):
// 0 long templates (10-18, 24-40 or 24-70 route segments, many variables), 1 many WebServices (33-40), 2 long Consumes / Produces
// lists (up to 12 entries), 3 many If-conditions per route (up to 10), 4 many routes in one service (up to 130).
func Scale(o *GenOpts, variant int) string {
	switch variant % 5 {
	case 0:
		// route paths of 10-18, 24-40 or 24-70 segments (beyond 16, 32 and 64), many of them variables
		o.MinPathLen, o.MaxPathLen, o.MaxRootLen = 10, []int{40, 70, 18}[(variant/5)%3], 4
		if o.MaxPathLen >= 40 {
			o.MinPathLen = 24 // templates with 16 and more variables / literals
			o.MaxRoutes = 10
		}
		o.LitSkew = (variant/5)%2 == 1
		if o.LitSkew {
			return "long-templates-literal-skew"
		}
		return "long-templates"
	case 1:
		o.MaxSvcs, o.MinSvcs, o.MaxRoutes, o.MaxRootLen = 40, 33, 3, 3
		return "many-services"
	case 2:
		o.MediaMax = 12
		return "long-media-lists"
	case 3:
		o.CondMax = 10
		return "many-conditions"
	}
	o.MaxRoutes, o.MaxSvcs, o.MaxPathLen = 130, 2, 6
	return "many-routes"
}

type genState struct {
	r    *core.Rand
	o    GenOpts
	vars int
}

func (g *genState) name() string {
	if g.o.DupNames && g.vars > 0 && g.r.Chance(1, 8) {
		return fmt.Sprintf("v%d", g.vars)
	}
	g.vars++
	return fmt.Sprintf("v%d", g.vars)
}

func (g *genState) seg(root bool, last bool) Seg {
	r := g.r
	curly := g.o.Router == "curly"
	k := r.Intn(100)
	var s Seg
	switch {
	case k < 45:
		s = Seg{Kind: Lit, Lit: r.Pick(Literals)}
		if !root && k < 5 {
			s.Lit = r.Pick(ExoticLits)
		}
	case k < 70 || g.o.PlainOnly:
		s = Seg{Kind: Var, Name: g.name()}
	case k < 85 && !g.o.NoRegex:
		s = Seg{Kind: VarRe, Name: g.name(), Re: r.Intn(len(Regexes))}
		for Regexes[s.Re].CurlyOnly && (!curly || g.o.NoCurlyOnly) {
			s.Re = r.Intn(len(Regexes))
		}
	case k < 93 && curly && (!root || k < 88):
		// {v}suffix, in route paths and (less often) in root paths
		s = Seg{Kind: VarSuf, Name: g.name(), Suf: r.Pick(Suffixes)}
	case k < 95 && curly && !root:
		s = Seg{Kind: VarPre, Name: g.name(), Lit: r.Pick([]string{"v", "id-", "x_"}), PreRe: r.Chance(1, 2), Re: r.Intn(len(Regexes) - 1)}
	case last && !root && !g.o.NoWild:
		s = Seg{Kind: Wild, Name: g.name()}
	default:
		s = Seg{Kind: Var, Name: g.name()}
	}
	if (s.Kind == VarRe || (s.Kind == VarPre && s.PreRe)) && r.Chance(1, 3) {
		s.ReVar = 1 + r.Intn(400) // the same constraint in one of 400 other spellings
	}
	if root && !g.o.VarRoots {
		s = Seg{Kind: Lit, Lit: r.Pick(Literals)}
	}
	if curly && last && !root && !g.o.PlainOnly && s.Kind != Wild && r.Chance(1, 8) {
		s.Verb = r.Pick(Verbs)
	}
	return s
}

func (g *genState) pathLen() int {
	if g.o.MinPathLen > 0 && g.o.MaxPathLen >= g.o.MinPathLen {
		return g.r.Range(g.o.MinPathLen, g.o.MaxPathLen)
	}
	return g.r.Intn(g.o.MaxPathLen + 1)
}

func (g *genState) tmpl(n int, root bool) Tmpl {
	t := make(Tmpl, 0, n)
	for i := 0; i < n; i++ {
		t = append(t, g.seg(root, i == n-1))
	}
	return t
}

func (g *genState) mediaList(max int) []string {
	r := g.r
	pool := Medias
	if g.o.MediaMax > max {
		max = g.o.MediaMax
		pool = append(append([]string{}, Medias...), MoreMedias...)
	}
	n := r.Intn(max + 1)
	var out []string
	for i := 0; i < n; i++ {
		m := r.Pick(pool)
		if g.o.StarMedia && r.Chance(1, 10) {
			m = "*/*"
		}
		dup := false
		for _, x := range out {
			if x == m {
				dup = true
			}
		}
		if !dup {
			out = append(out, m)
		}
	}
	return out
}

// GenTable draws a table of WebServices.
func GenTable(r *core.Rand, o GenOpts) *Table {
	g := &genState{r: r, o: o}
	t := &Table{}
	nsvc := r.Range(1, o.MaxSvcs)
	if nsvc < o.MinSvcs {
		nsvc = o.MinSvcs
	}
	rid := 0
	seenRoot := map[string]bool{}
	seenShape := map[string]bool{}
	for i := 0; i < nsvc; i++ {
		var root Tmpl
		ok := false
		for try := 0; try < 12 && !ok; try++ {
			g.vars = i * 100
			root = g.tmpl(r.Intn(o.MaxRootLen+1), true)
			if o.Nested && len(t.Svcs) > 0 && r.Chance(2, 3) {
				// extend or shorten an existing root so that roots nest
				base := t.Svcs[r.Intn(len(t.Svcs))].Root
				if len(base) > 0 && r.Chance(1, 3) {
					root = append(Tmpl{}, base[:len(base)-1]...)
				} else {
					root = append(append(Tmpl{}, base...), Seg{Kind: Lit, Lit: r.Pick(Literals)})
				}
			}
			ok = !seenRoot[root.String()]
			if o.Distinct && !root.AllLit() && seenShape[root.Shape()] {
				ok = false
			}
			// two variable roots of the same shape only differ in names/constraints: excluded by C03;
			// kept for the other properties only when their strings differ
		}
		if !ok {
			continue
		}
		seenRoot[root.String()] = true
		seenShape[root.Shape()] = true
		svc := SvcSpec{ID: i, Root: root}
		if o.Styles && len(root) > 0 && r.Chance(1, 8) {
			svc.RootStyle = 1
		}
		if o.Styles && len(root) == 0 && r.Chance(1, 3) {
			svc.RootStyle = 2 // a WebService on "/" that never calls Path
		}
		nr := r.Range(1, o.MaxRoutes)
		// small pool of paths so that routes collide on purpose
		pool := make([]Tmpl, 0, 3)
		for k := 0; k < r.Range(1, 3); k++ {
			g.vars = i*100 + 10 + k*10
			pool = append(pool, g.tmpl(g.pathLen(), false))
		}
		if o.LitSkew {
			// pool[0]: short literals nearly everywhere, a few plain variables
			for k := range pool[0] {
				if r.Chance(1, 8) {
					pool[0][k] = Seg{Kind: Var, Name: fmt.Sprintf("s%d_%d", i, k)}
				} else {
					pool[0][k] = Seg{Kind: Lit, Lit: r.Pick([]string{"a", "b", "c", "A"})}
				}
			}
		}
		manyRoutes := o.MaxRoutes >= 100
		if manyRoutes {
			// pool[0]: a literal path of 4-7 segments; the routes derived from it below replace any subset of its segments by
			// variables, so that dozens of distinct templates match the same URL
			pool[0] = make(Tmpl, r.Range(4, 7))
			for k := range pool[0] {
				pool[0][k] = Seg{Kind: Lit, Lit: r.Pick(Literals)}
			}
		}
		poolMethod := ""
		seen := map[string]bool{}
		for j := 0; j < nr; j++ {
			var p Tmpl
			mirror := false
			if manyRoutes && r.Chance(1, 2) {
				p = append(Tmpl{}, pool[0]...)
				g.vars = i*100 + 50 + j*7
				for k := range p {
					if r.Chance(1, 2) {
						p[k] = Seg{Kind: Var, Name: g.name()}
					}
				}
			} else if r.Chance(1, 2) {
				p = pool[r.Intn(len(pool))]
			} else {
				g.vars = i*100 + 50 + j*5
				p = g.tmpl(g.pathLen(), false)
				// specialise / generalise a pooled path: same shape, one segment changed
				if len(pool[0]) > 1 && (r.Chance(1, 8) || (o.LitSkew && r.Chance(1, 2))) {
					// the mirror image of a pooled path: a variable wherever it has a literal, a literal wherever it has a
					// variable (the two cross in every position; with long templates one has many more variables than the other)
					p = make(Tmpl, len(pool[0]))
					g.vars = i*100 + 90 + j
					nlit, chars := 0, 0
					for k, sg := range pool[0] {
						if sg.Kind == Lit {
							p[k] = Seg{Kind: Var, Name: g.name()}
							chars += len(sg.Lit)
						} else {
							p[k] = Seg{Kind: Lit, Lit: r.Pick(Literals)}
							nlit++
						}
					}
					if want := chars + r.Intn(3) - 1; o.LitSkew && nlit > 0 && want >= nlit {
						// spread "want" literal characters over the mirror's literals
						left, todo := want, nlit
						for k := range p {
							if p[k].Kind != Lit {
								continue
							}
							n := left / todo
							if todo == 1 {
								n = left
							}
							p[k].Lit = strings.Repeat("m", n)
							left -= n
							todo--
						}
					}
					mirror = true
				} else if len(pool[0]) > 0 && r.Chance(1, 2) {
					p = append(Tmpl{}, pool[0]...)
					k := r.Intn(len(p))
					g.vars = i*100 + 80 + j
					ns := g.seg(false, k == len(p)-1)
					if ns.Kind == Wild && k != len(p)-1 {
						ns = Seg{Kind: Var, Name: g.name()}
					}
					p[k] = ns
				}
			}
			mpool := Methods
			if o.Methods != nil {
				mpool = o.Methods
			}
			rs := RouteSpec{ID: rid, Method: r.Pick(mpool), Path: p}
			if o.OddMethods && r.Chance(1, 7) {
				rs.Method = r.Pick([]string{"LOCK", "UNLOCK", "FIND", "PROPFIND", "OPTIONS", "GE"})
			}
			if mirror && poolMethod != "" {
				rs.Method = poolMethod // the mirror image competes with a route on the pooled path
			} else if len(pool[0]) > 0 && p.String() == pool[0].String() {
				poolMethod = rs.Method
			}
			key := rs.Method + " " + shapeKey(p)
			if o.Distinct && seen[key] {
				continue
			}
			seen[key] = true
			if o.Styles {
				rs.Style = r.Intn(4)
				if rs.Style == 2 && p.HasVerb() {
					// a trailing slash behind a custom verb is outside the template forms C01 quantifies over (DESIGN §4.4)
					rs.Style = 0
				}
			}
			if o.Media {
				if r.Chance(1, 2) {
					rs.Consumes = g.mediaList(2)
				}
				if r.Chance(1, 2) {
					rs.Produces = g.mediaList(2)
				}
				if len(rs.Consumes) > 0 && r.Chance(1, 6) {
					rs.NoCT = []string{r.Pick(Methods)}
				}
				rs.ViaSvc = r.Chance(1, 5)
			}
			if o.Conds && r.Chance(1, 4) {
				nc, pool := r.Range(1, 2), 3
				if o.CondMax > 2 {
					nc, pool = r.Range(1, o.CondMax), 12
				}
				for k := 0; k < nc; k++ {
					rs.Conds = append(rs.Conds, fmt.Sprintf("X-C%d", r.Intn(pool)))
				}
			}
			rid++
			svc.Routes = append(svc.Routes, rs)
			if o.Twins && !o.Distinct && r.Chance(1, 5) {
				tw := rs
				tw.ID = rid
				rid++
				tw.Consumes, tw.Produces, tw.NoCT = nil, nil, nil
				if r.Chance(2, 3) {
					tw.Consumes = g.mediaList(2)
				}
				if r.Chance(1, 2) {
					tw.Produces = g.mediaList(2)
				}
				if r.Chance(1, 2) {
					// the catch-all twin first
					svc.Routes[len(svc.Routes)-1], tw = tw, svc.Routes[len(svc.Routes)-1]
					svc.Routes[len(svc.Routes)-1].ID, tw.ID = tw.ID, svc.Routes[len(svc.Routes)-1].ID
				}
				svc.Routes = append(svc.Routes, tw)
			}
		}
		if len(svc.Routes) > 0 {
			t.Svcs = append(t.Svcs, svc)
		}
	}
	if len(t.Svcs) == 0 {
		t.Svcs = append(t.Svcs, SvcSpec{ID: 0, Root: Tmpl{{Kind: Lit, Lit: "a"}}, Routes: []RouteSpec{{ID: 0, Method: "GET", Path: Tmpl{}}}})
	}
	return t.Fill()
}

// shapeKey identifies templates that differ only in variable names (excluded from
// C03's order-independence: same method + same key would be ambiguous by construction).
func shapeKey(p Tmpl) string {
	var b strings.Builder
	for _, s := range p {
		switch s.Kind {
		case Lit:
			b.WriteString("/L:" + s.Lit)
		case Var:
			b.WriteString("/V")
		case VarRe:
			b.WriteString("/R:" + Regexes[s.Re].Src)
		case VarSuf:
			b.WriteString("/S:" + s.Suf)
		case Wild:
			b.WriteString("/W")
		case VarPre:
			b.WriteString("/P:" + s.Lit)
			if s.PreRe {
				b.WriteString(":" + Regexes[s.Re].Src)
			}
		}
		if s.Verb != "" {
			b.WriteString(":" + s.Verb)
		}
	}
	return b.String()
}

// instantiate produces tokens that the template matches (Yes).
func instantiate(r *core.Rand, full Tmpl) []string {
	var toks []string
	for _, s := range full {
		var v string
		switch s.Kind {
		case Lit:
			v = s.Lit
		case Var:
			v = r.Pick(VarVals)
		case VarRe:
			v = r.Pick(Regexes[s.Re].Yes)
		case VarSuf:
			v = r.Pick(VarVals) + s.Suf
		case VarPre:
			v = s.Lit + r.Pick(VarVals)
			if s.PreRe {
				v = s.Lit + r.Pick(Regexes[s.Re].Yes)
			}
		case Wild:
			n := r.Range(1, 3)
			short := false
			if r.Chance(1, 25) {
				n = []int{14, 22, 30, 38, 62, 64, 130}[r.Intn(7)] // deep paths below the tail wildcard (totals around 16, 32, 64 and beyond)
				short = r.Chance(3, 4)                            // mostly short segments: joined lengths around 64, 128, 256
			}
			for i := 0; i < n; i++ {
				v := r.Pick(VarVals)
				for short && len(v) > 8 {
					v = r.Pick(VarVals)
				}
				toks = append(toks, v)
			}
			continue
		}
		if s.Verb != "" {
			v += ":" + s.Verb
		}
		toks = append(toks, v)
	}
	return toks
}

var advPaths = []string{
	"", "/", "//", "///", "/a//b", "a/b", "a", "/a/b//", "//a", "/{x}", "/a/{v}", "/:", "/a:cancel", "/:cancel", "/a/:run",
	"/%2F", "/a/\x00", "/ü/ñ", "/a/*}", "/{", "/}", "/a/{v:*}", "/a/b/c/d/e/f/g/h/i/j", "/a\n/b", "/\xff\xfe", "/a/b?x=1", "/a/./b", "/a/../b", "/ /a", "/a/ ", "/.", "/..",
}

var advCT = []string{"", ";", ",", ";;;", ",,,", "*/*", "APPLICATION/JSON", "application/json;", " application/json", "application/json ;charset=utf-8", "text/plain , application/json",
	"application/json,application/xml", "application/json;q=high, application/xml;q=0.5", "application/xml;q=x,application/json", "application/jsonx", "json", "application/*", "a/b;q=1;q=2", "\tapplication/json", "application/json\t", "ünï/cödé", strings.Repeat("x", 3000)}

// mediaHeader writes a Content-Type / Accept value around a wanted media type.
func mediaHeader(r *core.Rand, want string, accept bool) string {
	switch r.Intn(9) {
	case 0:
		return want
	case 1:
		return want + "; charset=utf-8"
	case 2:
		return " " + want + " "
	case 3:
		return "image/png, " + want
	case 4:
		return want + " ; q=0.5 , image/png;q=0.9"
	case 5:
		return "image/png;q=0.1," + want + ";level=1"
	case 6:
		if accept {
			return "image/png, */*;q=0.1"
		}
		return want
	case 7:
		return "  image/gif  ,  " + want + "  ;  x=y"
	}
	if accept && r.Chance(1, 2) {
		return r.Pick(Medias) + ";q=0, " + want // q is a matter for the entity writer: the router only asks whether some member is producible
	}
	return want + "," + want
}

// jointTokens rewrites the tokens of a hit on route a so that another route b of the same service, method and length
// matches as well: where a has a variable and b a literal, the token becomes b's literal. nil when no such URL exists.
func jointTokens(r *core.Rand, s *SvcSpec, a *RouteSpec, toks []string) []string {
	fa := Full(s, a)
	if len(fa) == 0 || len(toks) != len(fa) {
		return nil
	}
	var cands []*RouteSpec
	for i := range s.Routes {
		b := &s.Routes[i]
		if b.ID != a.ID && b.Method == a.Method && len(b.Path) == len(a.Path) {
			cands = append(cands, b)
		}
	}
	if len(cands) == 0 {
		return nil
	}
	fb := Full(s, cands[r.Intn(len(cands))])
	out := append([]string{}, toks...)
	changed := false
	for i := range fa {
		if fa[i].Kind != Lit && fb[i].Kind == Lit {
			out[i] = fb[i].Lit
			if fb[i].Verb != "" {
				out[i] += ":" + fb[i].Verb
			}
			changed = true
		}
	}
	if !changed {
		return nil
	}
	if t, _ := MatchFull(fa, out); t != Yes {
		return nil
	}
	if t, _ := MatchFull(fb, out); t != Yes {
		return nil
	}
	return out
}

// GenReq draws one request for a table.
func GenReq(r *core.Rand, t *Table, router string) Req {
	req := Req{Hdr: map[string]string{}}
	// condition headers: mostly on
	for k := 0; k < 3; k++ {
		if r.Chance(3, 4) {
			req.Hdr[fmt.Sprintf("X-C%d", k)] = "1"
		}
	}
	mode := r.Intn(100)
	if mode < 8 || t.NumRoutes() == 0 {
		req.Class = "adv"
		req.Path = r.Pick(advPaths)
		if r.Chance(1, 6) {
			req.Path = "/" + strings.Repeat("y", 5000) + "/" + r.Pick(Literals)
		}
		req.Method = r.Pick(append([]string{"OPTIONS", "get", "", "FOO", "TRACE"}, Methods...))
		if r.Chance(1, 2) {
			req.HasCT, req.CT = true, r.Pick(advCT)
		}
		if r.Chance(1, 2) {
			req.HasAcc, req.Accept = true, r.Pick(advCT)
		}
		if r.Chance(1, 3) {
			req.BodyLen = 5
		}
		return req
	}
	si := r.Intn(len(t.Svcs))
	for try := 0; try < 8 && len(t.Svcs[si].Routes) == 0; try++ {
		si = r.Intn(len(t.Svcs))
	}
	s := &t.Svcs[si]
	if len(s.Routes) == 0 {
		// a WebService without routes: probe its root
		req.Class = "hit"
		req.Method = r.Pick(Methods)
		req.Path = "/" + strings.Join(instantiate(r, s.Root), "/")
		return req
	}
	rt := &s.Routes[r.Intn(len(s.Routes))]
	full := Full(s, rt)
	toks := instantiate(r, full)
	req.Method = rt.Method
	req.Class = "hit"
	// headers that satisfy the route
	if len(rt.Consumes) > 0 && r.Chance(4, 5) {
		c := r.Pick(rt.Consumes)
		if c == "*/*" {
			c = r.Pick(Medias)
		}
		req.HasCT, req.CT = true, mediaHeader(r, c, false)
	} else if r.Chance(1, 4) {
		req.HasCT, req.CT = true, r.Pick(Medias)
	}
	if len(rt.Produces) > 0 && r.Chance(3, 5) {
		p := r.Pick(rt.Produces)
		if p == "*/*" {
			p = r.Pick(Medias)
		}
		req.HasAcc, req.Accept = true, mediaHeader(r, p, true)
	} else if r.Chance(1, 4) {
		req.HasAcc, req.Accept = true, "*/*"
	}
	if req.Method == "POST" || req.Method == "PUT" || req.Method == "PATCH" {
		if r.Chance(7, 10) {
			req.BodyLen = 5
		}
	} else if r.Chance(1, 10) {
		req.BodyLen = 5
	}
	for _, c := range rt.Conds {
		if r.Chance(9, 10) {
			req.Hdr[c] = "1"
		}
	}
	if r.Chance(1, 8) {
		req.Query = r.Pick([]string{"a=1", "a=1&b=%2Fx%20y", "path=/other/route", "x", "%7Bv%7D=1&:verb", "a=/&b=//"})
	}
	if r.Chance(1, 12) {
		// a second field of the same header: the framework reads the first one
		req.More = map[string][]string{}
		if req.HasCT {
			req.More["Content-Type"] = []string{r.Pick(Medias)}
		}
		if req.HasAcc {
			req.More["Accept"] = []string{r.Pick(append([]string{"*/*", "image/png"}, Medias...))}
		}
	}
	if mode < 55 && len(s.Routes) > 1 && r.Chance(1, 6) {
		// a URL that a second route of the same method matches as well (its literals stand where this route has variables)
		if jt := jointTokens(r, s, rt, toks); jt != nil {
			toks = jt
			req.Class = "joint"
		}
	}
	if mode >= 55 {
		// single-mutation near miss
		muts := []string{"method", "ct", "accept", "cond", "body"}
		if len(toks) > 0 {
			muts = append(muts, "replace", "drop", "case", "extra", "extra", "replace")
		} else {
			muts = append(muts, "extra")
		}
		for i, sg := range full {
			_ = i
			switch sg.Kind {
			case VarRe:
				muts = append(muts, "regex-no", "regex-part")
			case VarSuf:
				muts = append(muts, "suffix-drop", "suffix-alter", "suffix-short")
			}
			if sg.Verb != "" {
				muts = append(muts, "verb-drop", "verb-other", "verb-only", "verb-nocolon")
			}
		}
		m := r.Pick(muts)
		req.Class = "near:" + m
		idxOf := func(pred func(Seg) bool) int {
			// token index of the first segment satisfying pred (wildcard is last, so indexes align)
			for i, sg := range full {
				if pred(sg) && i < len(toks) {
					return i
				}
			}
			return -1
		}
		switch m {
		case "method":
			req.Method = r.Pick(append([]string{"OPTIONS", "get", "LOCK", "UNLOCK", "FIND", "PROPFIND"}, Methods...))
		case "ct":
			req.HasCT = r.Chance(4, 5)
			req.CT = r.Pick(append(advCT, Medias...))
		case "accept":
			req.HasAcc = r.Chance(4, 5)
			req.Accept = r.Pick(append(advCT, Medias...))
		case "cond":
			for k := 0; k < 3; k++ {
				delete(req.Hdr, fmt.Sprintf("X-C%d", k))
			}
		case "body":
			if req.BodyLen > 0 {
				req.BodyLen = 0
			} else {
				req.BodyLen = 7
			}
		case "replace":
			toks[r.Intn(len(toks))] = r.Pick(append(Literals, VarVals...))
		case "drop":
			toks = toks[:len(toks)-1]
		case "extra":
			toks = append(toks, r.Pick(append(Literals, VarVals...)))
		case "case":
			k := r.Intn(len(toks))
			if toks[k] == strings.ToUpper(toks[k]) {
				toks[k] = strings.ToLower(toks[k])
			} else {
				toks[k] = strings.ToUpper(toks[k])
			}
		case "regex-no":
			if i := idxOf(func(s Seg) bool { return s.Kind == VarRe && len(Regexes[s.Re].No) > 0 }); i >= 0 {
				v := r.Pick(Regexes[full[i].Re].No)
				if full[i].Verb != "" {
					v += ":" + full[i].Verb
				}
				toks[i] = v
			}
		case "regex-part":
			if i := idxOf(func(s Seg) bool { return s.Kind == VarRe && len(Regexes[s.Re].Part) > 0 }); i >= 0 {
				v := r.Pick(Regexes[full[i].Re].Part)
				if full[i].Verb != "" {
					v += ":" + full[i].Verb
				}
				toks[i] = v
			}
		case "suffix-drop":
			if i := idxOf(func(s Seg) bool { return s.Kind == VarSuf }); i >= 0 {
				toks[i] = strings.TrimSuffix(strings.TrimSuffix(toks[i], ":"+full[i].Verb), full[i].Suf)
				if full[i].Verb != "" {
					toks[i] += ":" + full[i].Verb
				}
			}
		case "suffix-alter":
			if i := idxOf(func(s Seg) bool { return s.Kind == VarSuf }); i >= 0 {
				toks[i] = r.Pick(VarVals) + full[i].Suf[:len(full[i].Suf)-1] + "Z"
				if full[i].Verb != "" {
					toks[i] += ":" + full[i].Verb
				}
			}
		case "suffix-short":
			if i := idxOf(func(s Seg) bool { return s.Kind == VarSuf }); i >= 0 {
				// shorter than or equal to the suffix: the historic panic (D1)
				opts := []string{full[i].Suf, full[i].Suf[1:], "x", full[i].Suf[len(full[i].Suf)-1:]}
				toks[i] = r.Pick(opts)
				if full[i].Verb != "" {
					toks[i] += ":" + full[i].Verb
				}
			}
		case "verb-drop":
			if i := idxOf(func(s Seg) bool { return s.Verb != "" }); i >= 0 {
				toks[i] = strings.TrimSuffix(toks[i], ":"+full[i].Verb)
			}
		case "verb-other":
			if i := idxOf(func(s Seg) bool { return s.Verb != "" }); i >= 0 {
				toks[i] = strings.TrimSuffix(toks[i], ":"+full[i].Verb) + ":" + r.Pick([]string{"other", "CANCEL", "cance", "cancelx", "1"})
			}
		case "verb-nocolon":
			if i := idxOf(func(s Seg) bool { return s.Verb != "" }); i >= 0 {
				base := strings.TrimSuffix(toks[i], ":"+full[i].Verb)
				toks[i] = r.Pick([]string{base + full[i].Verb, full[i].Verb, base + "-" + full[i].Verb})
			}
		case "verb-only":
			if i := idxOf(func(s Seg) bool { return s.Verb != "" }); i >= 0 {
				toks[i] = ":" + full[i].Verb
			}
		}
	}
	req.Path = "/" + strings.Join(toks, "/")
	if len(toks) >= 2 && r.Chance(1, 10) {
		// on the wire the last separator was an escaped slash (%2F): net/http then keeps the wire form in URL.RawPath.
		// The framework routes on the decoded URL.Path; RawPath must not change anything.
		esc := make([]string, len(toks))
		for i, t := range toks {
			esc[i] = url.PathEscape(t)
		}
		n := len(esc)
		raw := "/" + strings.Join(esc[:n-1], "/") + "%2F" + esc[n-1]
		if u, err := url.PathUnescape(raw); err == nil && u == req.Path {
			req.RawPath = raw
		}
	} else if len(toks) > 0 && r.Chance(1, 7) {
		req.Path += "/"
	}
	return req
}

// HitReq builds a request that the given route admits (template-derived path, its method, satisfying headers).
func HitReq(r *core.Rand, s *SvcSpec, rs *RouteSpec) Req {
	req := Req{Hdr: map[string]string{}, Method: rs.Method, Class: "hit"}
	req.Path = "/" + strings.Join(instantiate(r, Full(s, rs)), "/")
	if len(rs.Consumes) > 0 {
		c := rs.Consumes[0]
		if c == "*/*" {
			c = Medias[0]
		}
		req.HasCT, req.CT = true, c
	}
	for _, c := range rs.Conds {
		req.Hdr[c] = "1"
	}
	if req.Method == "POST" || req.Method == "PUT" || req.Method == "PATCH" {
		req.BodyLen = 5
	}
	return req
}

// DeepCounts are segment counts around powers of two (limits tend to sit there).
var DeepCounts = []int{31, 32, 33, 63, 64, 65, 127, 128, 129, 255, 256, 257, 1000}

// DeepReq builds a request that a tail-wildcard route of the table admits, with exactly n path segments
// (ok=false when the table has no such route or its fixed part is already longer).
func DeepReq(r *core.Rand, t *Table, n int) (Req, bool) {
	for si := range t.Svcs {
		s := &t.Svcs[si]
		for ri := range s.Routes {
			rs := &s.Routes[ri]
			full := Full(s, rs)
			if len(full) == 0 || full[len(full)-1].Kind != Wild || len(full)-1 >= n {
				continue
			}
			req := HitReq(r, s, rs)
			toks := instantiate(r, full[:len(full)-1])
			for len(toks) < n {
				toks = append(toks, "d")
			}
			req.Path = "/" + strings.Join(toks, "/")
			req.Class = "deep"
			return req, true
		}
	}
	return Req{}, false
}
