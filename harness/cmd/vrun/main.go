// vrun executes the workload and oracle of one property in this process and writes a
// result file for the driver (vcheck). One child process per check (DESIGN §3.5).
package main

import (
	"flag"
	"fmt"
	"os"
	"runtime/debug"

	"verifharness/core"
	"verifharness/props"
)

func main() {
	prop := flag.String("prop", "", "property id (C01..C19) or 'selftest'")
	tier := flag.String("tier", "quick", "quick|thorough")
	seed := flag.Uint64("seed", 1, "VERIF_SEED")
	out := flag.String("out", "result.json", "result file")
	progress := flag.String("progress", "", "progress file (case id written before each case)")
	only := flag.Int("case", -1, "run only this case index (replay)")
	scale := flag.Float64("scale", 1, "scale case counts (calibration)")
	shard := flag.Int("shard", 0, "shard index")
	shards := flag.Int("shards", 1, "number of shards (cases are split by index modulo shards)")
	flag.Parse()

	fn, ok := props.Registry[*prop]
	if !ok {
		fmt.Fprintf(os.Stderr, "unknown property %q\n", *prop)
		os.Exit(2)
	}
	ctx, err := core.NewCtx(*prop, *tier, *seed, *out, *progress)
	if err != nil {
		fmt.Fprintln(os.Stderr, err)
		os.Exit(2)
	}
	ctx.OnlyCase = *only
	ctx.Scale = *scale
	ctx.Shard, ctx.Shards = *shard, *shards
	complete := false
	func() {
		defer func() {
			if p := recover(); p != nil {
				// a panic that escapes a workload is a harness or library crash: report, never swallow
				ctx.Violation(-1, "harness-panic", fmt.Sprintf("panic escaped the workload: %v", p), string(debug.Stack()))
			}
		}()
		fn(ctx)
		complete = true
	}()
	if err := ctx.Finish(complete); err != nil {
		fmt.Fprintln(os.Stderr, err)
		os.Exit(2)
	}
	if ctx.Violations() > 0 {
		os.Exit(1)
	}
}
