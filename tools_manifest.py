#!/usr/bin/env python3
"""Regenerates MANIFEST.json from the table below (keeps the 19 entries consistent). Run: python3 tools_manifest.py"""
import json
import os

ROOT = os.path.dirname(os.path.abspath(__file__))

# id: (level, technique, level text, level note, design ref)
CHECKS = {
 "C01": ("exploration", "reference-model monitor (three-valued template/header matcher) on every route-function invocation, seeded table x request generation",
         "Every invocation observed while driving tens of thousands of generated (table, request) pairs through the real routers is judged by an executable reference of the route declaration (method, template match incl. regex/suffix/verb/wildcard, Consumes, Produces, If-conditions, selected-route identity). Held on the executions observed; no claim about tables or requests not generated.",
         "Trusts the harness's reference matcher (rt/ref.go, self-tested) and Go's regexp for full/partial regex matches; partial regex matches, empty segments and zero-length wildcards are counted but not judged.", "DESIGN §6 C01"),
 "C02": ("exploration", "reference staged-elimination monitor + recover() totality monitor, trace on/off differential",
         "Each generated request (incl. an adversarial path/header pool) is dispatched with tracing off and on; a monitor checks no panic, <=1 invocation, and that the observed class (invoke/404/405+Allow/415/406) is admitted by a reference staged elimination over the best-matching root. Held on what was observed.",
         "Exact-class verdicts only where the reference is determinate (three-valued); weak mode for incomparable roots / RouterJSR311 variable roots as the property states.", "DESIGN §6 C02"),
 "C03": ("exploration", "metamorphic monitor: registration-order permutations (incl. a history-built order) + alone-eligibility specificity oracle using the real code, with the executable route-declaration reference as second opinion on eligibility",
         "The same table is built under several registration orders and every request must get the same outcome; for each selected route/root the real code itself (container with only the competitor) says which competitors are eligible - and so does the executable reference of the route declaration where its answer is determinate -, and none may dominate the selection. Every second table is also built through a history (a route per dynamic-routes WebService registered only after the request list was served once with a stand-in in its place). Plus pairs of CurlyRouter root paths over all literal/variable shapes of 1-5 segments, registered in both orders and probed with URLs both match.", "Domain restricted exactly as the property excludes (same-shape variable roots, same-method templates differing only in names).", "DESIGN §6 C03"),
 "C04": ("exploration", "reference-binding monitor inside invoked handlers + substitution round-trip law",
         "PathParameters() seen by every invoked generated handler is compared with the reference binding of the URL text and substituted back into the template.", "RouterJSR311 wildcard values compared modulo a trailing slash.", "DESIGN §6 C04"),
 "C05": ("exploration", "reference Accept ranker monitor on written entities + whitespace/repetition metamorphic relations",
         "For generated Produces lists, Accept headers (ranges, q-values, parameters, OWS, */*), default-content-type settings and registered-writer sets, the Content-Type and body written by WriteEntity are compared with an executable ranker; decorated spellings and repetitions must agree; handlers that overwrite Accept in the request header map before writing; types registered while clients already ask for them.",
         "Accept grammar limited to well-formed q-values and full media types plus */* (as the property states).", "DESIGN §6 C05"),
 "C06": ("exploration", "offline event-log checker (order, exactly-once, stack discipline, hand-over identity) over sequential and concurrent histories; race detector on",
         "Generated filter configurations (0-3 per level; pass/short-circuit/replace/attribute/middleware adapter) are driven by request sequences and 16 concurrent goroutines; the recorded per-request log must be exactly the prefix of [container.., service.., route.., handler] with reversed exits and intact hand-over. A fixed scenario adds a filter in the style of http.TimeoutHandler (returns before the chain it started has finished): every element still runs once, in order.",
         "Observation through the filters/handlers themselves (public API). The asynchronous scenario also runs with a plain net/http middleware behind HttpMiddlewareHandlerToFilter (the handler's late output must reach the writer the middleware passed on); filters that write an error status and pass control on.", "DESIGN §6 C06"),
 "C07": ("fault_enumeration", "recording-writer monitor over an enumerated switch/outcome matrix: decode-complete-stream == written log, label and enablement checks, identity twin",
         "Enumerates entry point x container switch x route override x Accept-Encoding x pre-set Content-Encoding x provider x outcome kind (success, routing errors, panic before/after output) x payload/chunking (plus explicit statuses, forwarding handlers that add a footer afterwards, handlers that try to hijack first, reused write buffers, io.WriteString, io.Copy from a source returning data with io.EOF) and checks each response against the bytes the handlers logged; every 5th ServeHTTP cell runs behind a real net/http server and is read by an http.Client.",
         "The former known finding D7 (ServeHTTP + container switch on + route switch off) was repaired in /repo (fix 2cc8b80, KNOWN_FINDINGS.txt); its revert is part of the seeded regression set.", "DESIGN §6 C07"),
 "C08": ("exploration", "reference CORS-policy monitor + filter-less twin differential over near-miss origins",
         "For each generated configuration and origin (exact, case variants, prefixes, suffixes, superstrings, look-alikes, null, empty) the response's Access-Control-* headers are judged by a reference policy, and disallowed/absent origins must be answered exactly like a twin container without the filter. Plus four WebServices with CORS filters of their own served concurrently (each response is judged by the addressed service's filter) and two filters configured from one shared domain list.", "Predicate calls are tapped to know what the predicate answered for this request.", "DESIGN §6 C08"),
 "C09": ("exploration", "reference preflight monitor + twin probing of routable methods + per-filter history (sequential and concurrent, race detector on)",
         "Preflights over generated method/header requests and configurations; grants must be justified by the configuration or by methods a filter-less twin actually routes; successive preflights for different URLs on one filter value must each follow their own URL; WebServices with and without dynamic routes; origins on the request's own host under the other scheme; preflights while a route comes and goes (a grant lists the method it was asked for).", "Fragment of C17 when AllowedMethods is empty.", "DESIGN §6 C09"),
 "C10": ("fault_enumeration", "crash-point enumeration with recover()/RecoverHandler/ledger monitors and post-panic probe replay",
         "Panics are injected at every enumerated chain position (each filter before/after passing control, handler before/between/after writes, error handler) x recovery x coding x provider x entry point; monitors check single delivery to the recover handler, status/body completeness, propagation when recovery is off, compressor ledger balance, and unchanged answers to follow-up probes plus Add/Remove.",
         "HandleWithFilter excluded (the property speaks of routed dispatch). Sequences include panicking requests from a client whose connection fails on every write; the default recover report must occur exactly once per response; 3000 containers configured from two goroutines at once.", "DESIGN §6 C10"),
 "C11": ("exploration", "history-vs-fresh differential monitor over generated registration histories",
         "Random histories over Add/Remove/Route/RemoveRoute/Handle on colliding root paths (also 33/70 services, once per process a container on http.DefaultServeMux); after every operation a fresh container is built from the model and both must answer a derived probe set identically via ServeHTTP and Dispatch; where an executable reference of the ServeMux registration policy says the framework owns a clean URL, ServeHTTP and Dispatch of the history-built container must answer alike; Add must never panic/exit and every registration call runs under a goroutine-state watchdog.",
         "Histories never add duplicate roots (library exits by contract).", "DESIGN §6 C11"),
 "C12": ("exploration", "Go race detector + porcupine linearizability check of client-boundary histories (per-key register over generations) + stable-probe and blocked-goroutine monitors",
         "Mutator goroutines (4, 12 or 20) Add/Remove services and Route/RemoveRoute routes with unique generations while reader goroutines probe (GET answers, and the Allow header of 405 answers on a key whose route changes its method with every generation); race reports with a go-restful frame, non-linearizable per-key histories, wrong stable answers, answers that ran a filter chain other than their own, panics and state-detected deadlocks are violations.",
         "Schedules are not reproducible; evidence reports overlapping operations actually observed. The OPTIONS filter's list (GET listed or not) is a presence read of the key in the same histories; half of the rounds have recovery on and an If-condition that panics for marked requests.", "DESIGN §6 C12"),
 "C13": ("exploration", "instrumenting CompressorProvider ledger + stale-reference trip-wire + porcupine per-object mutex history + release-storm blocked-goroutine detector; race detector on",
         "Wraps sync.Pool, bounded(0,1,2,8) and a custom provider; checks exclusive ownership, exactly-once release, no use after release, no blocking (state-based), and that concurrent encoded responses / gzip request bodies decode to their own payload; a hand-over scenario releases objects of a previous provider into a provider that has not handed out anything yet; Accept-Encoding in other letter case; a recover handler that aborts with http.ErrAbortHandler.",
         "Ledger adds after inner acquire and removes before inner release, so it cannot false-alarm on provider-internal ordering.", "DESIGN §6 C13"),
 "C14": ("exploration", "metamorphic monitor: paired dispatch of p and p/ on the same container",
         "All request kinds of C02 as pairs (p, p/) on generated tables; status, route, parameters and Allow set must be equal.", "RouterJSR311 tables without tail wildcard, default path strategy.", "DESIGN §6 C14"),
 "C15": ("fault_enumeration", "counting/failing ResponseWriter with enumerated fault positions under generated write-call sequences",
         "For generated sequences of Response writing calls, the underlying writer accepts exactly k bytes then fails, for every k at and inside call boundaries (sampled around call boundaries and powers of two for outputs beyond 5 000 bytes); StatusCode()/ContentLength() read by a trailing filter and the returned errors are compared with what the writer received; three responses beyond 2 GiB / 4 GiB are counted; statuses incl. 1xx/204/304; handlers that declare a Content-Length of their own; routing failures answered by the default or a custom ServiceErrorHandler; a container nested as the plain handler of an outer container whose filter observes.", "At most one status-setting call, first (as the property states).", "DESIGN §6 C15"),
 "C16": ("exploration", "round-trip monitor over generated values and corrupt-body histories, sequential and concurrent (race detector on)",
         "Values of a generated struct family are written by the framework's writer, optionally compressed, posted to an echo route and compared after ReadEntity; broken bodies must give errors, never panics, and never disturb the next well-formed request; provider instances are re-installed after having been replaced; a vendor type is sent before and after its accessor is registered.", "Error demanded only when a stdlib reference decode shows the document incomplete/invalid.", "DESIGN §6 C16"),
 "C17": ("exploration", "differential monitor: 405 Allow and OPTIONSFilter answers vs per-method probes on a filter-less twin",
         "For generated tables on the common fragment and derived URLs, S(u) is measured by probing each method; every 405 Allow set and the OPTIONS filter's Allow/Access-Control-Allow-Methods must equal S(u); OPTIONS runs no route function; other methods untouched; OPTIONS requests for different URLs from 8 goroutines at once get the answers they get alone; now and then a WebService whose routes are registered from one re-pathed RouteBuilder.", "Clean URLs only.", "DESIGN §6 C17"),
 "C18": ("exploration", "N-version monitor: twin containers differing only in router",
         "Every generated request on the common fragment is sent to a CurlyRouter and a RouterJSR311 container built from the same table; status, route, parameters and Allow set must agree; every sixth table loses a route on both twins (RemoveRoute) between two passes; every third may repeat a variable name inside a template.",
         "Known finding: ranking of crossing templates (each has a literal where the other has a variable) differs where each router follows its own key (KNOWN_FINDINGS.txt, sig c18:rank-incomparable); disagreements on identical, same-shape or comparable templates, and picks against a router's own key, are reported.", "DESIGN §6 C18"),
 "C19": ("exploration", "fresh-container reference differential over sequential histories, barrier-released concurrent batches and trace on/off, with a second reference computed by other processes (reverse / shuffled request order) and a cold-start burst; race detector on",
         "Each request's response and handler-side observations on a long-lived, concurrently used container must equal what a fresh container gives that request alone through the same entry point - in this process and, for every 5th (thorough: 25th) configuration, in two child processes of the runner that serve the multiset in reverse and shuffled order (package-level state left behind by a request would pollute an in-process reference). 16 clients send the first request through never-used route expressions at once.", "Reference per (request, entry point); child processes are the runner binary itself (os.Args[0]) in child mode.", "DESIGN §6 C19"),
}

KF = [l for l in open(os.path.join(ROOT, "KNOWN_FINDINGS.txt")) if not l.startswith("#")]
NFIXED = len([l for l in KF if l.startswith("fixed:")])
NKNOWN = len([l for l in KF if l.startswith("known:")])
NSEEDED = len([d for d in os.listdir(os.path.join(ROOT, "seeded")) if os.path.exists(os.path.join(ROOT, "seeded", d, "meta.json"))])
DONE = [l.strip() for l in open(os.path.join(ROOT, "CLAIMED.txt")) if l.strip() and not l.startswith("#")]

manifest = {
 "version": 1,
 "setup_cmd": "./vcheck setup",
 "hooks": {
  "guard": "verif",
  "enable": "go build -tags verif (every harness build passes the tag); no source hook exists in /repo: all observation goes through public extension points (DESIGN §3.3)",
  "baseline_off_cmd": "cd /repo && GOFLAGS=-mod=mod GOPROXY=off GOSUMDB=off go test -json -vet=off -count=1 -timeout 25m ./...",
  "source_commits": [],
  "add_only": True,
 },
 "engines": [
  {"name": "vrun", "path": "harness/cmd/vrun", "serves_properties": sorted(DONE), "kind_free_text": "Go runner: seeded workloads + runtime monitors against the real package (built from /repo's working tree, -race for concurrent properties)"},
  {"name": "vcheck", "path": "vcheck", "serves_properties": sorted(DONE), "kind_free_text": "driver: rebuild, child process under watchdog, race-log parsing, known-finding matching, evidence"},
 ],
 "checks": [],
 "not_applicable": [],
 "notes": "Technique family: runtime monitoring and sanitizers. Genuine defects repaired by fix: commits in /repo (%d) and recorded findings (%d) are listed in KNOWN_FINDINGS.txt; DESIGN.md section 2. Calibration: %d seeded changes under seeded/ (tools_seeded.py detect <id>; SEEDED.md), DESIGN.md section 8." % (NFIXED, NKNOWN, NSEEDED),
}
for pid in sorted(CHECKS):
    level, tech, text, note, ref = CHECKS[pid]
    if pid in DONE:
        manifest["checks"].append({
            "property_id": pid,
            "quick_cmd": "./vcheck %s quick" % pid,
            "thorough_cmd": "./vcheck %s thorough" % pid,
            "evidence_file": "/verif/evidence/%s.json" % pid,
            "replay_cmd_template": "./vcheck replay {path}",
            "engine": "vrun",
            "level_claimed": {"category": level, "text": text, "design_ref": ref},
            "level_note": note,
            "technique": tech,
        })
    else:
        manifest["not_applicable"].append({"property_id": pid, "reason": "not claimed in this revision: its runtime monitor is still under construction (DESIGN §6 describes the planned check)"})
with open(os.path.join(ROOT, "MANIFEST.json"), "w") as f:
    json.dump(manifest, f, indent=1)
print("MANIFEST.json: %d checks, %d not claimed" % (len(manifest["checks"]), len(manifest["not_applicable"])))
