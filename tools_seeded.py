#!/usr/bin/env python3
"""Seeded-defect bookkeeping (calibration, DESIGN §8).

  tools_seeded.py verify <src_dir> <id>     confirm a candidate (clean+demo passes; patched: unit suite passes, demo fails) in a scratch
                                            worktree and, if confirmed, archive it as /verif/seeded/<id>/ (patch.diff, demo_test.go, meta.json)
  tools_seeded.py detect <id> [tier] [props...]   apply /verif/seeded/<id>/patch.diff to a scratch worktree, run ./vcheck for the property
                                            (or the listed ones) against it via VERIF_REPO, write /verif/seeded/<id>/detect.json
  tools_seeded.py table                     print which checks catch which changes (from the detect.json files)

Scratch worktrees live under /tmp/vseed and are removed after use. /repo itself is never modified.
"""
import json
import os
import re
import shutil
import subprocess
import sys
import time

ROOT = os.path.dirname(os.path.abspath(__file__))
SEEDED = os.path.join(ROOT, "seeded")
SCRATCH = "/tmp/vseed"
ENV = dict(os.environ, GOFLAGS="-mod=mod", GOPROXY="off", GOSUMDB="off", GOTOOLCHAIN="local")


def sh(cmd, cwd=None, env=None, timeout=1800):
    p = subprocess.run(cmd, cwd=cwd, env=env or ENV, shell=isinstance(cmd, str), stdout=subprocess.PIPE, stderr=subprocess.STDOUT, text=True, timeout=timeout)
    return p.returncode, p.stdout


def worktree(name):
    os.makedirs(SCRATCH, exist_ok=True)
    d = os.path.join(SCRATCH, name)
    if os.path.exists(d):
        sh(["git", "-C", "/repo", "worktree", "remove", "--force", d])
        shutil.rmtree(d, ignore_errors=True)
    rc, out = sh(["git", "-C", "/repo", "worktree", "add", "-q", "--detach", d, "HEAD"])
    if rc != 0:
        raise SystemExit("worktree add failed: " + out)
    return d


def drop(d):
    sh(["git", "-C", "/repo", "worktree", "remove", "--force", d])
    shutil.rmtree(d, ignore_errors=True)
    sh(["git", "-C", "/repo", "worktree", "prune"])


def verify(src, sid):
    meta = json.load(open(os.path.join(src, "meta.json")))
    demo_cmd = meta.get("demo_cmd", "go test -vet=off -count=1 -run TestSeededDemo .")
    demo_cmd = re.split(r"\s+\(", demo_cmd)[0].strip()  # agents sometimes append a remark in parentheses
    meta["demo_cmd"] = demo_cmd
    d = worktree("verify-" + sid)
    res = {"id": sid, "steps": {}}
    try:
        shutil.copy(os.path.join(src, "demo_test.go"), os.path.join(d, "zz_seeded_demo_test.go"))
        rc, out = sh(demo_cmd, cwd=d)
        res["steps"]["clean_demo_passes"] = rc == 0
        os.remove(os.path.join(d, "zz_seeded_demo_test.go"))
        rc, out = sh(["git", "apply", os.path.join(src, "patch.diff")], cwd=d)
        res["steps"]["patch_applies"] = rc == 0
        rc, out = sh("go build ./... && go test -vet=off -count=1 .", cwd=d)
        res["steps"]["patched_suite_passes"] = rc == 0
        shutil.copy(os.path.join(src, "demo_test.go"), os.path.join(d, "zz_seeded_demo_test.go"))
        rc, out = sh(demo_cmd, cwd=d)
        res["steps"]["patched_demo_fails"] = rc != 0
        res["demo_failure_tail"] = out[-600:]
    finally:
        drop(d)
    ok = all(res["steps"].values())
    res["confirmed"] = ok
    if ok:
        dst = os.path.join(SEEDED, sid)
        os.makedirs(dst, exist_ok=True)
        shutil.copy(os.path.join(src, "patch.diff"), dst)
        shutil.copy(os.path.join(src, "demo_test.go"), os.path.join(dst, "demo_test.go.txt"))
        meta["confirmed_by"] = "tools_seeded.py verify: clean worktree + demo passes; patched: go build ./... && go test -vet=off -count=1 . passes, demo fails"
        meta["demo_file_note"] = "demo_test.go.txt: copy to <worktree>/zz_seeded_demo_test.go and run demo_cmd"
        meta["steps"] = res["steps"]
        json.dump(meta, open(os.path.join(dst, "meta.json"), "w"), indent=1)
    print(json.dumps(res))
    return 0 if ok else 1


def reverify(sid, patch=None, note=None):
    """Re-confirms an archived entry against the current /repo (after fix: commits moved the base). With `patch`, that
    file replaces the archived patch.diff if it confirms (a rebased version of the same change)."""
    dst = os.path.join(SEEDED, sid)
    meta = json.load(open(os.path.join(dst, "meta.json")))
    demo = os.path.join(dst, "demo_test.go.txt")
    if not os.path.exists(demo):
        print(sid, "has no demonstration (revert entries): only apply + suite are checked")
    pf = patch or os.path.join(dst, "patch.diff")
    d = worktree("reverify-" + sid)
    steps = {}
    try:
        rc, out = sh(["git", "apply", pf], cwd=d)
        steps["patch_applies"] = rc == 0
        rc, out = sh("go build ./... && go test -vet=off -count=1 .", cwd=d)
        steps["patched_suite_passes"] = rc == 0
        if os.path.exists(demo):
            shutil.copy(demo, os.path.join(d, "zz_seeded_demo_test.go"))
            rc, out = sh(meta.get("demo_cmd", "go test -vet=off -count=1 -run TestSeededDemo ."), cwd=d)
            steps["patched_demo_fails"] = rc != 0
    finally:
        drop(d)
    ok = all(steps.values())
    if ok and patch:
        shutil.copy(patch, os.path.join(dst, "patch.diff"))
        meta["rebased"] = note or "patch rebased onto the current /repo (same edit; a later fix: commit had moved the lines it touches)"
        json.dump(meta, open(os.path.join(dst, "meta.json"), "w"), indent=1)
    print(sid, json.dumps(steps), "confirmed" if ok else "NOT CONFIRMED")
    return 0 if ok else 1


def detect(sid, tier="quick", props=None):
    dst = os.path.join(SEEDED, sid)
    meta = json.load(open(os.path.join(dst, "meta.json")))
    if meta.get("obsolete"):
        print(sid, json.dumps({"obsolete": meta["obsolete"][:80]}))
        return 0
    props = props or meta.get("detect_with") or [meta["property"]]
    d = worktree("detect-" + sid)
    out_all = {}
    try:
        rc, out = sh(["git", "apply", os.path.join(dst, "patch.diff")], cwd=d)
        if rc != 0:
            raise SystemExit("patch does not apply: " + out)
        env = dict(ENV, VERIF_REPO=d)
        for p in props:
            t0 = time.time()
            rc, out = sh([os.path.join(ROOT, "vcheck"), p, tier], cwd=ROOT, env=env, timeout=7200)
            sigs = re.findall(r"^\s+sig=(\S+)", out, flags=re.M)
            out_all[p] = {"tier": tier, "exit": rc, "detected": rc == 1 and "VIOLATION property=" in out, "sigs": sorted(set(sigs))[:8],
                          "wall_s": round(time.time() - t0, 1), "tail": out[-400:] if rc not in (0, 1) else ""}
    finally:
        drop(d)
        # scratch binaries built for this worktree
        import hashlib
        tag = hashlib.sha1(d.encode()).hexdigest()[:8]
        for fn in os.listdir(os.path.join(ROOT, "build")):
            if tag in fn:
                try:
                    os.remove(os.path.join(ROOT, "build", fn))
                except OSError:
                    pass
    path = os.path.join(dst, "detect.json")
    old = json.load(open(path)) if os.path.exists(path) else {}
    for p, v in out_all.items():
        old.setdefault(p, {})[tier] = v
    json.dump(old, open(path, "w"), indent=1)
    print(sid, json.dumps({p: (v["detected"], v["wall_s"], v["sigs"][:3]) for p, v in out_all.items()}))
    return 0


def table(out=None):
    rows = []
    per = {}
    obsolete = []
    for sid in sorted(os.listdir(SEEDED)):
        mp = os.path.join(SEEDED, sid, "meta.json")
        if not os.path.exists(mp):
            continue
        meta = json.load(open(mp))
        if meta.get("obsolete"):
            obsolete.append("| %s | %s | %s |" % (sid, meta["property"], " ".join(meta["obsolete"].split()).replace("|", "/")))
            continue
        dp = os.path.join(SEEDED, sid, "detect.json")
        det = json.load(open(dp)) if os.path.exists(dp) else {}
        cells = []
        caught_by = []
        for p, tiers in sorted(det.items()):
            for t, v in sorted(tiers.items()):
                cells.append("%s/%s:%s" % (p, t, "CAUGHT" if v["detected"] else "missed"))
                if v["detected"] and p not in caught_by:
                    caught_by.append(p)
        st = per.setdefault(meta["property"], {"n": 0, "caught": 0, "own": 0, "other": []})
        st["n"] += 1
        if caught_by:
            st["caught"] += 1
        if meta["property"] in caught_by:
            st["own"] += 1
        elif caught_by:
            st["other"].append("%s by %s" % (sid, "+".join(caught_by)))
        what = " ".join(meta.get("breaks", "").split())[:160].replace("|", "/")
        if meta.get("not_detected_because") and not caught_by:
            what = "NOT DETECTED (" + " ".join(meta["not_detected_because"].split()).replace("|", "/") + ") " + what
        rows.append("| %s | %s | %s | %s |" % (sid, meta["property"], "; ".join(cells) or "-", what))
    lines = ["| seeded change | property | checks (tier: verdict) | what it breaks |", "|---|---|---|---|"] + rows
    summ = ["| property | seeded changes | caught | caught by the property's own check | caught only by another check |", "|---|---|---|---|---|"]
    for p in sorted(per):
        st = per[p]
        summ.append("| %s | %d | %d | %d | %s |" % (p, st["n"], st["caught"], st["own"], "; ".join(st["other"]) or "-"))
    tot = sum(st["n"] for st in per.values())
    totc = sum(st["caught"] for st in per.values())
    summ.append("| all | %d | %d | | |" % (tot, totc))
    if out:
        with open(out, "w") as f:
            f.write("# Seeded changes and the checks that catch them\n\n")
            f.write("Generated by `python3 tools_seeded.py table SEEDED.md` from `seeded/*/meta.json` and `seeded/*/detect.json` ")
            f.write("(each detect.json holds exit code, signatures and wall time of the last `tools_seeded.py detect` run of that entry).\n\n")
            f.write("## Per property\n\n" + "\n".join(summ) + "\n\n## Per change\n\n" + "\n".join(lines) + "\n")
            if obsolete:
                f.write("\n## Obsolete entries (no longer defects on the current tree)\n\n| seeded change | property | why |\n|---|---|---|\n" + "\n".join(obsolete) + "\n")
        print("%s: %d entries, %d caught" % (out, tot, totc))
        dp = os.path.join(ROOT, "DESIGN.md")
        d = open(dp).read()
        b, e = "<!-- seeded-summary:begin -->", "<!-- seeded-summary:end -->"
        if b in d and e in d:
            d = d[:d.index(b) + len(b)] + "\n" + "\n".join(summ) + "\n" + d[d.index(e):]
            open(dp, "w").write(d)
    else:
        print("\n".join(summ))
        print()
        print("\n".join(lines))


if __name__ == "__main__":
    cmd = sys.argv[1]
    if cmd == "verify":
        sys.exit(verify(sys.argv[2], sys.argv[3]))
    if cmd == "detect":
        tier = sys.argv[3] if len(sys.argv) > 3 else "quick"
        sys.exit(detect(sys.argv[2], tier, sys.argv[4:] or None))
    if cmd == "reverify":
        sys.exit(reverify(sys.argv[2], sys.argv[3] if len(sys.argv) > 3 else None))
    if cmd == "table":
        table(sys.argv[2] if len(sys.argv) > 2 else None)
